#!/usr/bin/env python3
"""Writes /verif/MANIFEST.json from the table below (single source of truth for the registered checks)."""
import json, os, subprocess

ROOT = os.path.dirname(os.path.dirname(os.path.abspath(__file__)))

# id -> (technique, level text, level note, design ref)
CHECKS = {
    "C05": ("covering-map search oracle (does not assume the library's numbering), multiset comparison of isomorphism types with covers the harness builds from its own permutation representations, Todd-Coxeter orders and indices, path lifting",
            "Exploration: five constructors on all small 2D/3D bases: oriented_cover, covers(k<=5), cover_for_table, finite_universal_cover (trivial group re-derived by enumerating the cover's own textbook presentation), subgroup_cover (index and closed lifts).",
            "Trusted: model covering-map search, harness low-index and Todd-Coxeter; subgroup covers rely on C09's validation of the library's inner edges.", "6/C05"),
    "C09": ("differential monitor against the textbook presentation built by the harness: BigInt abelianisation, low-index profile, Todd-Coxeter order; structural clauses checked on the returned maps; inner_edges via the textbook presentation with those facets as the trivial set",
            "Exploration: ~20k symbols (2D <= 4-6 chambers, 3D <= 3-4, both representations, renumbered, covers up to 384 chambers).",
            "Trusted: textbook presentation, SNF, low-index and Todd-Coxeter oracles. Isomorphism is tested through the invariants the property names.", "6/C09"),
    "C15": ("certificate monitor: covering map found by model search, orientedness, unbranchedness, torus by Euler characteristic (2D), H1 = Z^3 by independent presentation + BigInt SNF (3D), sheet-number whitelist; metamorphic over renumberings and dual; corpus must be found",
            "Exploration: all euclidean 2D symbols up to 4 (6) chambers; all 3D domain symbols up to 3 (4) chambers with variants; 19 corpus symbols.",
            "Trusted: model covering search, textbook pi1 + SNF. Corpus = symbols quoted by the repository.", "6/C15"),
    "C16": ("repeated-execution monitor (hash-order nondeterminism = schedules): every call's result validated structurally (sphere tiles/vertex figures by exact curvature), H1 and low-index profile compared with the input, hook-recorded move traces; corpus results compared across numberings and repetitions",
            "Exploration: ~100 (thorough ~700) inputs x 5 (25) repetitions: pseudo-toroidal covers of corpus and universe symbols, finite universal covers and finite-group covers.",
            "Trusted: orbifold curvature model, textbook pi1 + SNF; library presentation as instrument for low-index counts on large results (validated by C09). None results not judged.", "6/C16"),
    "C17": ("metamorphic + certificate monitor: verdict class across renumberings, dual, representation, repetitions and covers; yes-certificate re-derived independently (cover, H1 = Z^3, subgroup counts 1/7/13); corpus must be yes; reason-string histogram",
            "Exploration: all 3D domain symbols up to 3 (4) chambers plus sampled larger ones, each in 5 variants, deep-pipeline symbols repeated and compared with their covers.",
            "Trusted: as C15/C16. Euclidicity itself is not decided, only consistency, certificates and the corpus.", "6/C17"),
    "C01": ("hostile-input workload (token mutations, prefixes/suffixes, token soup, hostile numbers) under catch_unwind, with big-number strings parsed in a child process under RLIMIT_AS so that allocation aborts are observed; structural round-trip oracle against the generating model",
            "Exploration: every string's outcome is classified ok / err / panic / abort; accepted symbols are re-read through op/v and validated (involutions on 1..size, degrees constant on orbits and multiples of r); round trips of ~5k symbols incl. 100-1000 chamber covers judged structurally against the model that produced them.",
            "Trusted: the model's own printer/reader of the text format. Strings are sampled beyond the enumerated prefixes/suffixes.", "6/C01"),
    "C02": ("reference-model monitor: every query of every representation compared with a plain-vector model over the full argument box incl. out-of-range values; exhaustive over all labelled small D-sets",
            "Exploration: all labelled tuples of involutions with commuting far operations up to the size bounds (every numbering of every small set, connected or not) x branching assignments, each through PartialDSet, SimpleDSet, PartialDSym, SimpleDSym, as_* conversions, parser output and generator output; orbits/orbit_reps/traversals over all index subsets and seed lists.",
            "Trusted: MSym model (orbit length by iteration, BFS reachability, 2-colouring). Incomplete sets only exercised for absence of panics.", "6/C02"),
    "C03": ("metamorphic + differential monitor: all n! renumberings for small n, brute-force canonical form (every start chamber) as isomorphism oracle, run-wide partition comparison for both directions of the iff",
            "Exploration: canonical form isomorphic to input, idempotent, invariant under every explored renumbering; partition of ~30k symbols by library canonical form equals partition by brute-force canonical form.",
            "Trusted: model isomorphism test. Connected complete symbols only.", "6/C03"),
    "C04": ("differential monitor against Moore partition refinement (coarsest congruence), brute-force automorphisms and verified BFS morphism extension; covers vs bases",
            "Exploration: minimal_image / is_minimal / automorphisms / morphism(self, other, img0) for every img0 and six kinds of target / fold chained through returned partitions, on all small symbols plus hand-made witnesses and validated covers.",
            "Trusted: the refinement and brute-force oracles; source connected and complete.", "6/C04"),
    "C06": ("exhaustive differential monitor: generator output vs brute-force enumeration of ALL involution tuples up to isomorphism; membership sampling beyond the bound; pruning hooks must fire",
            "Exploration, exhaustive at the stated bounds: soundness, irredundancy and completeness of DSets(dim, n) against all tuples of involutions (dim 1 n<=7, dim 2 n<=6, dim 3 n<=5 quick; larger thorough); beyond: validity, pairwise non-isomorphism, prefix consistency, derived and random valid sets must be present.",
            "Trusted: brute-force canonical form. Completeness beyond the bound only sampled.", "6/C06"),
    "C07": ("exhaustive differential monitor: generator output per geometry vs reference enumeration of all branching assignments (v <= 9) modulo brute-force automorphisms, exact rational curvature from an independent orbifold model",
            "Exploration, exhaustive over all connected 2D D-sets up to 6 (thorough 8) chambers in three numberings x four geometry settings: validity of every output, irredundancy, equality with the reference sets, 'all' = disjoint union.",
            "Trusted: orbifold model and the property's list of 31 good spherical orbifolds; v > 9 not explored by the reference.", "6/C07"),
    "C08": ("certificate monitor: the returned Conway symbol is parsed and its Euler characteristic compared with the curvature (Gauss-Bonnet, exact); differential against an orbifold computed from definitions; metamorphic (renumbering, dual, covers)",
            "Exploration: all 2D symbols on connected sets <= 4 (thorough 5) chambers with v <= 5, sampled larger ones with two-digit cones, duals, renumberings, covers <= 4 sheets.",
            "Trusted: orbifold model (cones, boundary tracing, genus) and the symbol parser of the harness.", "6/C08"),
    "C11": ("differential monitor against the harness's own HLT Todd-Coxeter; returned table re-read through len/get and checked structurally; corpus of presentations with literature orders, non-normal subgroups via Schreier generators of low-index actions, redundant textbook presentations as hostile inputs",
            "Exploration: thousands of (presentation, subgroup) pairs, mostly non-normal subgroups; every clause of the property checked on the returned table and representatives.",
            "Trusted: harness Todd-Coxeter (self-validating: it checks its own table) and literature orders; finite index <= 3000.", "6/C11"),
    "C12": ("differential monitor against brute-force enumeration of all homomorphisms into S_n up to conjugacy (ground truth) and the harness's own low-index search (cross-checked); canonical forms of actions for inequivalence",
            "Exploration: every corpus presentation at every index bound up to 4-6, fundamental groups of 2D/3D symbols; validity of each table, pairwise inequivalence, number of classes per index.",
            "Trusted: brute-force homomorphism count where (n!)^gens <= 3e6; low-index oracle beyond.", "6/C12"),
    "C13": ("differential monitor: index of the generated subgroup by Todd-Coxeter, order of the presented group, abelianisation and low-index profile against the harness's own Reidemeister-Schreier presentation; core/intersection against permutation-group closure and product-action orbits with word membership tests",
            "Exploration: stabiliser of every base row of every transitive action (index <= 5-7) of every corpus group, core of every table <= 8 rows, intersections of pairs <= 6 rows.",
            "Trusted: harness Todd-Coxeter, Reidemeister-Schreier, SNF and permutation closure.", "6/C13"),
    "C10": ("lock-step reference-model monitor over operation histories (free-group model), exhaustive small words + random histories",
            "Exploration: every operation of ~1.4M judged operations compared with an independent free-group model; exhaustive over all raw letter sequences up to length 4 (0 letters included) for unary ops and all pairs up to length 3 for binary ops; order axioms on all triples. Right level because the property is a universally quantified algebraic law whose failures show on short words.",
            "Trusted: the harness's cancel-until-fixpoint reduction; words over <= 3 generators; random histories sampled.", "6/C10"),
    "C14": ("differential monitor against BigInt Smith normal form (elimination cross-checked with gcds of minors) + metamorphic rewritings",
            "Exploration: all 2x2/2x3/3x2 matrices over [-3,3] and tens of thousands of structured random matrices up to 5x5, each rendered as words in three styles; six invariance rewritings judged against the same oracle value.",
            "Trusted: num-bigint arithmetic and the two oracle SNF routines agreeing with each other; entries <= 9 in synthetic inputs.", "6/C14"),
    "C18": ("differential monitor against exact rational / mod-p arithmetic with multiply-back certificates, all shapes 1..6 x 1..6, three scalar backends and the const-generic twin via hooks; release-build divergence lane; Miri lane for the position cache",
            "Exploration: every returned null space, solution and inverse multiplied back exactly; rank/determinant compared with own elimination and Leibniz formula; residue-class field axioms on special values (0, +-P, +-kP, i64::MIN/MAX); p-adic solver compared with the exact rational solution incl. systems singular only modulo the prime.",
            "Trusted: num-rational BigRational and u128 arithmetic in the oracle. i64 overflow panics on large inputs are out of domain (magnitude, not shape).", "6/C18"),
    "C19": ("definition-level oracle (separation by BFS, minimality by subset enumeration / independent max-flow) over all small digraphs, random graphs and networks captured from simplify by a hook",
            "Exploration: exhaustive over every simple digraph on 4 (thorough: 5) labelled vertices x terminal pairs x four entry points; random and layered networks; the real networks simplify builds.",
            "Trusted: the harness BFS and brute-force subset enumeration; domain restricted as stated in the property (no source-sink edge for vertex cuts).", "6/C19"),
    "C20": ("lock-step reference-model monitor (quick-find label array) over operation histories with clones; Miri (Stacked + Tree Borrows), ASan and memcheck lanes for the UnsafeCell code",
            "Exploration: all operation histories of length 4-5 over a 20-operation alphabet on 4 elements for four partition types, random 200-step histories in three observation modes (so that deep trees and compression through &self are exercised), UB interpreter on the same workload.",
            "Trusted: quick-find model; Miri's aliasing models; element types with ordinary Hash/Eq.", "6/C20"),
}


# Workloads and lanes added after the seeded-change rounds (DESIGN.md 12.1 / 12.6): appended to the texts above.
# id -> (technique suffix, level text suffix, level note suffix)
ADDED = {
    "C01": ("; coverage-guided libFuzzer lane (cargo-fuzz target parse_dsym, 16 processes) with the same oracle inside the target; release-build lane",
            " Numbers at the 2^8/2^16/2^32/2^53 boundaries in every field; multi-byte UTF-8 at every offset; 65540-chamber strip.", ""),
    "C02": ("; grow histories in mixed increments replayed against the model; release-build lane",
            " A ladder with 65540 chambers (beyond u16) in every representation; predicates also judged on incomplete sets; boundary branching numbers; index and seed LISTS with repeats and in other orders.", ""),
    "C03": ("; the library's own == on canonical forms compared with model isomorphism",
            " Branching numbers at the 2^8/2^16/2^32 boundaries; a 65540-chamber strip in two numberings.", ""),
    "C04": ("; Miri and ASan lanes for fold -> Partition",
            " Degrees at the 2^8/2^16/2^32 boundaries, flag systems of polyhedra / tori / 4-polytopes (24-384 chambers), morphisms between same-set symbols with different degrees.", ""),
    "C05": ("", " Subgroup covers from long multi-generator subgroups of large finite Coxeter groups; sheet bounds up to 8-9 on small oriented symbols.", ""),
    "C06": ("", " Quick tier brute-forces (2,11), (3,10), (4,7) as well.", ""),
    "C07": ("", " Plus structured sets: flag systems of the tetrahedron, cube, dodecahedron, hemi-cube, hemi-dodecahedron, tori (24-120 chambers).", ""),
    "C08": ("", " Branching numbers 10-12 and at the 2^8..2^53 boundaries; every representation judged; on orientable orbifolds all boundary components are read with one global orientation (model) and compared up to simultaneous reversal; identical text demanded when no component is chiral.", ""),
    "C09": ("", " Every 3D D-set with 6-8 chambers from the library's generator (validated by the model) with all admissible branchings.", ""),
    "C10": ("", " Histories with letter 0, offsets in -3len..3len, words up to 3000 letters, all four operand forms, construction from lazy iterators that themselves perform free-word operations.", ""),
    "C11": ("; Miri and ASan lanes for coset_table -> IntPartition",
            " Hostile families: presentation + killing relator (whole-table collapse in one scan), redundant generators, long multi-generator subgroups, empty words.", ""),
    "C12": ("", " Presentations with a redundant third generator, cyclic groups with a trivial generator, rotation subgroups up to index 8-9.", ""),
    "C13": ("; cases with > 256-row inputs are judged in a child process under RLIMIT_AS (an unbounded BFS is observed as process-died-under-resource-limit)",
            " Cores of regular dihedral tables with 300-2000 rows (beyond u8), intersections whose product orbit exceeds 65536 rows (beyond u16).", ""),
    "C14": ("", " Non-chain diagonals (4+ pairwise non-dividing entries), doubling chains with 64 generators and torsion near 2^32, relators of length ~257.",
            " KNOWN FINDING (not repaired): isize overflow in the elimination on dense matrices, identified by call site (6 known: lines); the check prints KNOWN-FINDING and exits 0 for those sites only."),
    "C15": ("", " Corpus closed under duals, renumberings and validated covers with up to 18 (thorough 32) chambers / 6 (8) sheets, each cover also dualised and renumbered.", ""),
    "C16": ("; ASan lane via C17", " Duals of the corpus, 10-48 renumberings of every corpus cover, externally reported numberings as regression inputs, lens spaces L(p,q) with 4p chambers (p <= 17, thorough all p <= 24) built by the harness's coset enumeration. None on a corpus torus cover is a violation (other numberings give the cube).", ""),
    "C17": ("; ASan lane for orbifold_graph", " Verdict on the certificate cover itself; covers of corpus symbols with up to 18 (32) chambers / 6 (8) sheets.", ""),
    "C18": ("", " Systems whose rational solution has vanishing p-adic digits (x = a + b p^k); moduli interleaved on each worker; solutions on the Hadamard bound (1x1 and rotation-dilation systems swept log-uniformly over 30 binary orders of magnitude); periodic-graph position cache.", ""),
    "C19": ("", " Layered networks with 12-40 vertices, sparse non-contiguous labels, antiparallel arc pairs.", ""),
    "C20": ("", " Binomial-tree histories (maximal rank), queries of several hundred interleaved elements, an element type whose Hash is coarser than its Eq, queries with repeated and never-seen elements, clone_from into instances in use.", ""),
}

# Round 4 (hostile-caller shapes, DESIGN.md 12.7): appended after ADDED.
ADDED4 = {
    "C01": ("; rejected parses (texts that fail late, in the degree lists) interleaved on the worker threads between judged cases; bounded progress: every in-process parse under a 30 s CPU-time budget of the calling thread",
            " A valid text must be accepted whatever the thread parsed before; long rejected strings with a multi-byte character at every byte offset up to 420 after the first offending character.", ""),
    "C02": ("; PartialDSet builder histories with rejected calls (caught panics) in between, whole state compared with the model after every call", "", ""),
    "C03": ("", " Branching numbers around the sign bit of the machine word (2^62..2^64-1) on orbits of length 1; long-tie strips (20,000-140,000 chambers, one marked orbit off the middle) under reversal, rotation and a random renumbering.", ""),
    "C04": ("", " Base images outside the target (0, size+1, usize::MAX) must give None; degree tuples that compensate each other across a power-of-two radix ((a+B, b) against (a, b+1), B = 2^8, 2^16, 2^32).", ""),
    "C05": ("", " Cover lists at sheet bounds 66-140 on symbols with small dihedral / cyclic groups (tables wider than a machine word); 1.5 million (thorough 20 million) subgroup covers from short, medium and long generating words on every spherical 2D symbol with <= 4 chambers.", ""),
    "C06": ("; iterator-contract oracle: the generator driven through nth / skip / step_by / take-in-chunks / last / fold / peekable must yield the items and numbers of the plain next() sequence, size_hint must bracket the truth, an exhausted generator stays exhausted", "", ""),
    "C07": ("; iterator-contract oracle (as C06) on DSyms", " Flags of the 7- and 8-gonal prism (23 and 26 two-orbits; thorough 5..8-gonal): validity, numbering, irredundancy under the 4p automorphisms and the union clause without the reference enumeration.", ""),
    "C10": ("; abandoned constructor calls (input iterator that panics half way, caught) interleaved on the worker threads between judged cases",
            " Conjugate-before-core histories: u c u^-1 queried before c, its rotations, its inverse and partial conjugates on the same thread.", ""),
    "C12": ("; iterator-contract oracle (as C06) on the table enumeration; abandoned enumerations between judged cases", "", ""),
    "C13": ("; relators handed over in three iterator forms; abandoned stabilizer calls (relator with a generator the table lacks, base row outside the table) between judged cases",
            " Intersection with 104,927 rows (beyond the 100,000-row limit of coset enumeration, which does not apply to this routine).", ""),
    "C14": ("; relators handed over in six iterator forms (exact size, filter, chain, no size hint at all, flat_map, take_while); abandoned calls (panicking iterator, out-of-range generator) between judged cases", "", ""),
    "C11": ("; abandoned calls (generator the group does not have) between judged cases", " Polyhedral groups written with mixed-sign relators (a b^-1)^q and 2-3 long-word subgroups of them.", ""),
    "C15": ("; out-of-domain calls between judged cases; cover lists at a small sheet bound made on the same thread before toroidal_cover",
            " Cone-free covers of corpus symbols built by the harness alone from random 2-3 generator subgroups (closed flat manifolds other than the torus, 24-144 chambers, ~400 per quick run): a pseudo-toroidal cover must be found and certified.", ""),
    "C16": ("", " 2-, 3- and 4-sheeted covers (480-960 chambers) of the tori of corpus symbols with large faces.", ""),
    "C17": ("; out-of-domain calls (2D, 1D, 5-fold axis) between judged cases", " Covers with up to 8 sheets / 24 chambers of every small symbol reported euclidean, in the quick tier too.", ""),
    "C18": ("; abandoned calls (division by the zero class, product of mismatched shapes) between judged cases", "", ""),
    "C08": ("; out-of-domain calls (3D, 1D symbols) between judged cases", " Mirror polygons with 20-60 corner points (strips with op2 = identity), single-digit and mixed corner orders.", ""),
    "C19": ("; edge lists handed over in six iterator forms; abandoned queries between judged cases; bounded progress: every query under a 30 s CPU-time budget of the calling thread, a query over budget is a violation",
            " Extreme vertex names (usize::MAX, 2^63, 2^32+1) in edge-cut queries; terminals that occur in no edge (isolated vertices).", ""),
    "C20": ("; abandoned operations: Partition<Fragile>, an element type whose Clone gives up once during find of a never-seen element (caught), instance used on",
            "", ""),
}

NOT_YET = {
}

def main():
    props = [json.loads(l) for l in open(os.path.join(ROOT, "properties.jsonl"))]
    ids = [p["id"] for p in props]
    checks = []
    for pid in ids:
        if pid in CHECKS:
            tech, text, note, ref = CHECKS[pid]
            a = ADDED.get(pid, ("", "", ""))
            tech, text, note = tech + a[0], text + a[1], note + a[2]
            b = ADDED4.get(pid, ("", "", ""))
            tech, text, note = tech + b[0], text + b[1], note + b[2]
            checks.append({
                "property_id": pid,
                "quick_cmd": f"bin/check {pid} quick",
                "thorough_cmd": f"bin/check {pid} thorough",
                "evidence_file": f"evidence/{pid}.json",
                "replay_cmd_template": f"bin/check {pid} --replay {{path}}",
                "engine": "vharness",
                "level_claimed": {"category": "exploration", "text": text, "design_ref": f"DESIGN.md section {ref}"},
                "level_note": note,
                "technique": tech,
            })
    not_applicable = [{"property_id": pid, "reason": NOT_YET.get(pid, "monitor not built yet at this commit (work in progress, see DESIGN.md section 6); not claimed until its check exists and is silent on the unchanged tree")}
                      for pid in ids if pid not in CHECKS]
    try:
        commits = subprocess.check_output(["git", "-C", "/repo", "log", "--format=%h %s", "--grep", "^verif hooks"], text=True).strip().splitlines()
    except Exception:
        commits = []
    manifest = {
        "version": 1,
        "setup_cmd": "bin/setup",
        "hooks": {
            "guard": "cargo feature `verif` of rust_dsymbols (off by default)",
            "enable": "the harness crate depends on rust_dsymbols = { path = \"/repo\", features = [\"verif\"] }; every check runs `cargo build --offline` first, so /repo's working tree is rebuilt with hooks on",
            "baseline_off_cmd": "cd /repo && cargo test --workspace --no-fail-fast --offline",
            "source_commits": [c.split()[0] for c in commits][::-1],
            "add_only": True,
        },
        "engines": [{
            "name": "vharness",
            "path": "harness/",
            "serves_properties": [c["property_id"] for c in checks],
            "kind_free_text": "Rust monitor binary (vcheck) linking the real library with hooks on: observe() = catch_unwind + panic location capture around every API call, independent oracles in harness/src/oracle (no use of rust_dsymbols), 16 worker threads, evidence written by the run itself; vsan binary = deterministic workloads for Miri / ASan / valgrind lanes",
        }],
        "checks": checks,
        "not_applicable": not_applicable,
        "notes": "Verdicts are three-valued: exit 0 held / exit 1 VIOLATION / exit 2 INCONCLUSIVE (never a VIOLATION line). Known findings: known_findings.txt (fixed: entries suppress nothing; 6 known: entries, all C14, keyed by call site). The monitor process runs under an address-space fuse (RLIMIT_AS 44 GiB); violations observed before an abnormal end or a watchdog firing are journalled at the moment they are observed (replays/.journal-*) and reported as violations; with none journalled, its abnormal end is INCONCLUSIVE. VERIF_SEED seeds all sampled workloads; enumerated parts do not depend on it.",
    }
    with open(os.path.join(ROOT, "MANIFEST.json"), "w") as f:
        json.dump(manifest, f, indent=1)
        f.write("\n")
    print("MANIFEST.json:", len(checks), "checks,", len(not_applicable), "not claimed")

if __name__ == "__main__":
    main()
