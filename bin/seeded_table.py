#!/usr/bin/env python3
"""Regenerates the table of seeded changes in DESIGN.md (between the seeded-table markers)
from seeded/*/meta.json. Documentation helper; not used by any check."""
import glob, json, os, re

V = os.path.dirname(os.path.dirname(os.path.abspath(__file__)))
rows = []
for d in sorted(glob.glob(f"{V}/seeded/C*-*")):
    mp = os.path.join(d, "meta.json")
    if not os.path.exists(mp):
        continue
    j = json.load(open(mp))
    sid = os.path.basename(d)
    caught_by, clauses = [], []
    for k, r in sorted(j.get("checks_run", {}).items()):
        if r.get("caught"):
            caught_by.append(k)
            clauses += r.get("clauses", [])
    clauses = sorted(set(clauses))
    cell = lambda s: str(s).replace("|", "\\|").replace("\n", " ")
    rows.append("| {} | {} | {} | {} | {} | {} | {} |".format(
        sid, j.get("round", 1), cell(j.get("breaks_clause", "")), cell(j.get("needs_to_manifest", "")),
        ", ".join(caught_by) or "NOT CAUGHT", cell("; ".join(clauses)), cell(j.get("history", "first try"))))
table = "| id | round | clause broken | needs, in order to manifest | caught by | clauses that fired | history |\n|---|---|---|---|---|---|---|\n" + "\n".join(rows)
p = f"{V}/DESIGN.md"
s = open(p).read()
s2 = re.sub(r"<!-- seeded-table-begin -->.*<!-- seeded-table-end -->", "<!-- seeded-table-begin -->\n" + table.replace("\\", "\\\\") + "\n<!-- seeded-table-end -->", s, flags=re.S)
open(p, "w").write(s2)
print(len(rows), "rows;", sum("NOT CAUGHT" in r for r in rows), "not caught")
