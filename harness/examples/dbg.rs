use vharness::bridge::*;
use vharness::oracle::{pi1, snf, groups};
use vharness::oracle::groups::Pres;
fn main() {
    let m = msym_from_text("<1.1:4 3:2 4,2 4,3 4,3 4:4 1,4,4 4>").unwrap();
    println!("valid {} connected {}", m.is_valid_symbol(), m.is_connected());
    let tb = pi1::textbook_pi1(&m);
    println!("tb {:?}", tb.pres);
    let fg = rust_dsymbols::fundamental_group::fundamental_group(&to_partial_dsym(&m));
    let lp = Pres{ngens: fg.nr_generators(), rels: from_freewords(fg.relators.iter())};
    println!("lib {:?}", lp);
    for k in 1..=5 {
        println!("k={} tb lowindex {:?} lib-pres lowindex {:?} tb bf {:?} lib bf {:?}", k,
          groups::low_index_profile(&tb.pres,k,10_000_000), groups::low_index_profile(&lp,k,10_000_000),
          groups::classes_of_index_bf(&tb.pres,k,1e8), groups::classes_of_index_bf(&lp,k,1e8));
    }
    let rels = to_freewords(&lp.rels);
    let n: Vec<usize> = rust_dsymbols::fpgroups::cosets::coset_tables(lp.ngens, &rels, 5).map(|t| t.len()).collect();
    println!("repo coset_tables on lib pres: {:?}", n);
    let rels = to_freewords(&tb.pres.rels);
    let n: Vec<usize> = rust_dsymbols::fpgroups::cosets::coset_tables(tb.pres.ngens, &rels, 5).map(|t| t.len()).collect();
    println!("repo coset_tables on tb pres: {:?}", n);
    println!("orders {:?} {:?}", groups::order(&tb.pres, 100000), groups::order(&lp, 100000));
    println!("ab {:?} {:?}", snf::abelian_invariants_of_presentation(tb.pres.ngens,&tb.pres.rels), snf::abelian_invariants_of_presentation(lp.ngens,&lp.rels));
}
