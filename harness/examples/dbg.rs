use vharness::rng::Rng; use vharness::monitor::observe;
use rust_dsymbols::fpgroups::invariants::abelian_invariants; use rust_dsymbols::fpgroups::free_words::FreeWord;
fn main() {
    for (dim, mag) in [(6usize,9i64),(10,3),(16,1)] {
        let mut rng = Rng::new(dim as u64 * 100 + mag as u64);
        loop {
            let rows: Vec<Vec<i64>> = (0..dim).map(|_| (0..dim).map(|_| rng.range(-mag, mag)).collect()).collect();
            let rels: Vec<Vec<i64>> = rows.iter().map(|r| { let mut w=vec![]; for (g,&e) in r.iter().enumerate() { for _ in 0..e.abs() { w.push(if e>0 {g as i64+1} else {-(g as i64+1)}); } } w }).collect();
            let fw: Vec<FreeWord> = rels.iter().map(|w| FreeWord::new(w.iter().map(|&x| x as isize))).collect();
            if let Err(p) = observe(|| abelian_invariants(dim, fw.iter())) {
                println!("{}x{}: {} at {} :: {:?}", dim, dim, p.msg, p.loc, rows);
                break;
            }
        }
    }
}
