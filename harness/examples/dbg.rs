use vharness::bridge::*;
use vharness::oracle::{pi1, snf, groups};
fn main() {
    let m = msym_from_text("<1.1:4:2 4,3 4,4 3:2,4>").unwrap();
    let tb = pi1::textbook_pi1(&m);
    println!("tb {:?} letters {:?}", tb.pres, tb.letter);
    let edges = vec![(4usize,0usize),(3,1),(1,0),(4,1)];
    let tb2 = pi1::textbook_pi1_with_extra_trivial(&m, &edges);
    println!("tb2 {:?}", tb2.pres);
    println!("{:?} {:?}", snf::abelian_invariants_of_presentation(tb.pres.ngens,&tb.pres.rels), snf::abelian_invariants_of_presentation(tb2.pres.ngens,&tb2.pres.rels));
    println!("{:?} {:?}", groups::low_index_profile(&tb.pres,3,100000), groups::low_index_profile(&tb2.pres,3,100000));
}
