use rust_dsymbols::delaney3d::pseudo_toroidal_cover;
use rust_dsymbols::derived::{build_set, build_sym_using_vs, canonical, minimal_image};
use rust_dsymbols::dsets::DSet;
use rust_dsymbols::dsyms::{DSym, PartialDSym};
use rust_dsymbols::simplify::simplify;
struct Lcg(u64);
impl Lcg { fn next(&mut self) -> u64 { self.0 = self.0.wrapping_mul(6364136223846793005).wrapping_add(1442695040888963407); self.0 >> 33 } }
fn renumber(ds: &PartialDSym, seed: u64) -> PartialDSym {
    let n = ds.size();
    let mut perm: Vec<usize> = (0..=n).collect();
    let mut rng = Lcg(seed);
    for i in (2..=n).rev() { let j = 1 + (rng.next() as usize) % i; perm.swap(i, j); }
    let mut inv = vec![0; n + 1];
    for d in 1..=n { inv[perm[d]] = d; }
    let op = |i, d| ds.op(i, inv[d]).map(|e| perm[e]);
    build_sym_using_vs(build_set(n, ds.dim(), op), |i, d| ds.v(i, i + 1, inv[d]))
}
fn key_of(ds: &PartialDSym) -> Option<String> { simplify(ds).map(|out| canonical(&minimal_image(&out)).to_string()) }
fn main() {
    let text = std::env::args().nth(1).unwrap_or("<383.1:4 3:2 4,3 4,1 2 3 4,2 4:4,6 2,4 6>".into());
    let seed0: u64 = std::env::args().nth(2).and_then(|s| s.parse().ok()).unwrap_or(404003);
    let nseeds: u64 = std::env::args().nth(3).and_then(|s| s.parse().ok()).unwrap_or(1);
    let reps: usize = std::env::args().nth(4).and_then(|s| s.parse().ok()).unwrap_or(60);
    let ds: PartialDSym = text.parse().unwrap();
    let cov = pseudo_toroidal_cover(&ds).unwrap();
    println!("cover size {}", cov.size());
    for r in 0..3 { match rust_dsymbols::euclidicity::is_euclidean(&ds) { rust_dsymbols::euclidicity::Euclidean::Yes => println!("verdict {} yes", r), rust_dsymbols::euclidicity::Euclidean::No(s) => println!("verdict {} no {}", r, s), rust_dsymbols::euclidicity::Euclidean::Maybe(s, _) => println!("verdict {} maybe {}", r, s) } }
    for seed in seed0..seed0 + nseeds {
        let c = renumber(&cov, seed);
        let mut hist = std::collections::BTreeMap::new();
        for _ in 0..reps { *hist.entry(key_of(&c)).or_insert(0usize) += 1; }
        if hist.len() > 1 || hist.keys().next().unwrap().is_none() || nseeds == 1 { println!("seed {} -> {:?}", seed, hist); }
    }
}
