use vharness::bridge::*;
fn main() {
    let a = msym_from_text("<383.1:4 3:2 4,3 4,1 2 3 4,2 4:4,6 2,4 6>").unwrap();
    let b = msym_from_text("<383.1:4 3:2 4,3 4,1 2 3 4,2 4:4,2 6,6 4>").unwrap();
    for (k, t) in vharness::gen::EUCLIDEAN_CORPUS.iter().enumerate() {
        let c = msym_from_text(t).unwrap();
        for (name, x) in [("a", &a), ("b", &b)] {
            if x.iso(&c) { println!("{} iso corpus {}", name, k); }
            if x.iso(&c.dual()) { println!("{} iso dual of corpus {} {}", name, k, t); }
            if x.covering_map_onto(&c).is_some() { println!("{} covers corpus {} {}", name, k, t); }
            if x.covering_map_onto(&c.dual()).is_some() { println!("{} covers dual of corpus {} {}", name, k, t); }
            if x.minimal_image().iso(&c.minimal_image()) { println!("{} same minimal image as corpus {} {}", name, k, t); }
            if x.minimal_image().iso(&c.dual().minimal_image()) { println!("{} same minimal image as dual corpus {} {}", name, k, t); }
        }
    }
    println!("a min image {} b min image {}", a.minimal_image().to_text(), b.minimal_image().to_text());
}
