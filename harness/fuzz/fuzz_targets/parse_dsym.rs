#![no_main]
//! Coverage-guided workload for C01 (parser totality): any panic inside `from_str` crashes the
//! fuzzer (artifact = witness); an accepted symbol is validated structurally through op/v and a
//! failed validation panics as well. Strings with a digit run of 7+ characters are skipped here
//! (unbounded-allocation inputs are handled by the child-process workload of the main monitor).
use libfuzzer_sys::fuzz_target;
use rust_dsymbols::dsets::DSet;
use rust_dsymbols::dsyms::{DSym, PartialDSym};

fuzz_target!(|data: &[u8]| {
    let s = match std::str::from_utf8(data) {
        Ok(s) => s,
        Err(_) => return,
    };
    let mut run = 0;
    for c in s.chars() {
        if c.is_ascii_digit() {
            run += 1;
            if run >= 7 {
                return;
            }
        } else {
            run = 0;
        }
    }
    if let Ok(sym) = s.parse::<PartialDSym>() {
        let (n, dim) = (sym.size(), sym.dim());
        assert!(n >= 1 && dim >= 1, "accepted symbol with size or dimension 0");
        for i in 0..=dim {
            for d in 1..=n {
                let e = sym.op(i, d).expect("accepted symbol with undefined operation");
                assert!(e >= 1 && e <= n && sym.op(i, e) == Some(d), "accepted symbol whose operation is not an involution on 1..size");
            }
        }
        for i in 0..dim {
            for d in 1..=n {
                let v = sym.v(i, i + 1, d);
                assert!(v.is_some(), "v undefined");
                assert_eq!(v, sym.v(i, i + 1, sym.op(i, d).unwrap()), "degree not constant on an orbit");
                assert_eq!(v, sym.v(i, i + 1, sym.op(i + 1, d).unwrap()), "degree not constant on an orbit");
            }
        }
        let text = sym.to_string();
        let again: PartialDSym = text.parse().expect("printed form of an accepted symbol is rejected");
        assert!(again == sym, "printed form parses to a different symbol");
    }
});
