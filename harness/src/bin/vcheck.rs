//! Driver: `vcheck <Cxx> [--tier quick|thorough] [--seed N] [--threads N] [--lane NAME]
//!                 [--verif-dir DIR] [--replay FILE]`

use vharness::monitor::{finish, start_watchdog, Cfg, Tier};

fn main() {
    let args: Vec<String> = std::env::args().collect();
    if args.len() < 2 {
        eprintln!("usage: vcheck <property id> [--tier quick|thorough] [--seed N] [--threads N] [--lane NAME] [--verif-dir DIR] [--replay FILE]");
        std::process::exit(2);
    }
    if args[1] == "--parse-child" {
        vharness::monitor::install_panic_hook();
        vharness::props::c01::parse_child_main();
        return;
    }
    if args[1] == "--case-child" {
        // vcheck --case-child <prop> <address space bytes> [--release-lane]  (input JSON on stdin)
        vharness::monitor::install_panic_hook();
        let mem = args.get(3).and_then(|s| s.parse::<u64>().ok()).unwrap_or(4 << 30);
        vharness::guard::case_child_main(&args[2], mem, args.iter().any(|a| a == "--release-lane"));
        return;
    }
    let prop = args[1].clone();
    let mut tier = match std::env::var("VERIF_TIER").ok().as_deref() {
        Some("thorough") => Tier::Thorough,
        _ => Tier::Quick,
    };
    let mut tier_from_cli = false;
    let mut seed: u64 = std::env::var("VERIF_SEED").ok().and_then(|s| s.parse::<i64>().ok()).map(|x| x as u64).unwrap_or(0);
    let mut threads = std::thread::available_parallelism().map(|n| n.get()).unwrap_or(4).min(16);
    let mut lane = "checked".to_string();
    let mut verif_dir = "/verif".to_string();
    let mut replay: Option<String> = None;
    let mut lane_reports: Vec<String> = vec![];
    let mut k = 2;
    while k < args.len() {
        match args[k].as_str() {
            "--tier" => {
                k += 1;
                tier = if args[k] == "thorough" { Tier::Thorough } else { Tier::Quick };
                tier_from_cli = true;
            }
            "--seed" => {
                k += 1;
                seed = args[k].parse::<i64>().map(|x| x as u64).unwrap_or(0);
            }
            "--threads" => {
                k += 1;
                threads = args[k].parse().unwrap_or(threads);
            }
            "--lane" => {
                k += 1;
                lane = args[k].clone();
            }
            "--verif-dir" => {
                k += 1;
                verif_dir = args[k].clone();
            }
            "--replay" => {
                k += 1;
                replay = Some(args[k].clone());
            }
            "--lane-report" => {
                k += 1;
                lane_reports.push(args[k].clone());
            }
            other => {
                eprintln!("unknown argument {}", other);
                std::process::exit(2);
            }
        }
        k += 1;
    }
    let _ = tier_from_cli;
    let cfg = Cfg { prop: prop.clone(), tier, seed, threads, lane, verif_dir };

    if let Some(path) = replay {
        let text = match std::fs::read_to_string(&path) {
            Ok(t) => t,
            Err(e) => {
                println!("INCONCLUSIVE property={} reason=cannot read replay file {}: {}", prop, path, e);
                std::process::exit(2);
            }
        };
        let v: serde_json::Value = match serde_json::from_str(&text) {
            Ok(v) => v,
            Err(e) => {
                println!("INCONCLUSIVE property={} reason=replay file is not JSON: {}", prop, e);
                std::process::exit(2);
            }
        };
        std::process::exit(vharness::props::replay(&cfg, &v, &path));
    }

    // fuse: a library change that allocates without bound must not take the machine down (62 GB, no swap);
    // an allocation failure aborts this process and bin/check reports INCONCLUSIVE
    let fuse_gb: u64 = std::env::var("VERIF_AS_LIMIT_GB").ok().and_then(|s| s.parse().ok()).unwrap_or(44);
    unsafe {
        let lim = libc::rlimit { rlim_cur: fuse_gb << 30, rlim_max: fuse_gb << 30 };
        libc::setrlimit(libc::RLIMIT_AS, &lim);
    }
    vharness::monitor::open_journal(&cfg);
    vharness::monitor::start_call_supervisor();
    start_watchdog(&prop, tier.pick(1500, 4 * 3600));
    match vharness::props::run(&cfg) {
        Some(mut report) => {
            vharness::monitor::absorb_lane_reports(&mut report, &lane_reports);
            std::process::exit(finish(report))
        }
        None => {
            println!("INCONCLUSIVE property={} reason=no check registered under this id", prop);
            std::process::exit(2);
        }
    }
}
