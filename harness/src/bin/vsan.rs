//! Small deterministic workloads for the sanitizer lanes (Miri, AddressSanitizer, valgrind
//! memcheck). The same lock-step oracles as in the native monitors run here, so a lane also
//! reports behavioural violations; the sanitizer itself reports undefined behaviour, aliasing
//! violations, leaks and memory errors in the library's two `unsafe` islands
//! (util/partitions.rs, pgraphs.rs) and in everything that sits on top of them.
//!
//! usage: vsan <workload> <seed> <size>
//!   partitions  : union-find histories (C20) for all four partition types
//!   position    : PeriodicGraph::position cache path (C18 client)
//!   fold        : DSet::fold / minimal_image / is_minimal (C04 -> Partition clone + find through &self)
//!   cosets      : coset_table / core_table / stabilizer on tiny groups (C11-C13 -> IntPartition)
//!   orbifold    : delaney3d::orbifold_graph (compress_graph -> IntPartition), via is_euclidean's filter

use vharness::monitor::Ctx;
use vharness::props::{c04, c11, c18, c20};
use vharness::rng::Rng;

fn main() {
    let args: Vec<String> = std::env::args().collect();
    let workload = args.get(1).map(|s| s.as_str()).unwrap_or("partitions").to_string();
    let seed: u64 = args.get(2).and_then(|s| s.parse().ok()).unwrap_or(0);
    let size: usize = args.get(3).and_then(|s| s.parse().ok()).unwrap_or(100);
    let mut ctx = Ctx::new();
    let mut ops: u64 = 0;
    match workload.as_str() {
        "partitions" => {
            let mut k = 0u64;
            while (ops as usize) < size {
                let mut rng = Rng::stream(seed, k);
                let universe = [6usize, 12, 24][(k % 3) as usize];
                let hist = c20::random_history_for_lanes(&mut rng, universe, 40);
                ops += match k % 4 {
                    0 => c20::run_history::<c20::UfInt>(&mut ctx, universe, &hist).0,
                    1 => c20::run_history::<c20::UfUsize>(&mut ctx, universe, &hist).0,
                    2 => c20::run_history::<c20::UfString>(&mut ctx, universe, &hist).0,
                    _ => c20::run_history::<c20::UfPair>(&mut ctx, universe, &hist).0,
                };
                k += 1;
            }
        }
        "position" => {
            let mut k = 0u64;
            while (ops as usize) < size {
                let mut rng = Rng::stream(seed, 0x5a_0000 + k);
                let c = c18::random_pgraph(&mut rng);
                if c.edges.len() <= 8 {
                    c18::judge_pgraph(&mut ctx, &c);
                    ops += 1;
                }
                k += 1;
            }
        }
        "fold" => {
            let syms = vharness::gen::symbols_2d(3, 2);
            let mut rng = Rng::stream(seed, 0x5a_1000);
            for _ in 0..size {
                let m = &syms[rng.below(syms.len())];
                c04::judge_minimal(&mut ctx, m, ops as usize);
                c04::judge_fold(&mut ctx, m, &mut rng);
                ops += 1;
            }
        }
        "cosets" => {
            let corpus = vharness::props::groupcorpus::corpus();
            let mut rng = Rng::stream(seed, 0x5a_2000);
            let small: Vec<_> = corpus.iter().filter(|g| g.order.map_or(false, |o| o <= 12)).collect();
            for _ in 0..size {
                let g = small[rng.below(small.len())];
                let n = g.pres.ngens as i64;
                let w: Vec<i64> = (0..(1 + rng.below(3))).map(|_| { let x = rng.range(1, n); if rng.chance(1, 2) { x } else { -x } }).collect();
                let sub = if rng.chance(1, 3) { vec![] } else { vec![vharness::oracle::groups::reduce(&w)].into_iter().filter(|w| !w.is_empty()).collect() };
                c11::judge(&mut ctx, &c11::Case { name: g.name.to_string(), pres: g.pres.clone(), subgens: sub, known_order: g.order });
                ops += 1;
            }
        }
        "orbifold" => {
            let uni = vharness::props::three_d::universe(2);
            let mut rng = Rng::stream(seed, 0x5a_3000);
            for _ in 0..size {
                let m = &uni[rng.below(uni.len())];
                let ds = vharness::bridge::to_partial_dsym(m);
                let r = vharness::monitor::observe(|| rust_dsymbols::delaney3d::orbifold_graph(&ds));
                if let Err(p) = r {
                    ctx.violation(&format!("panic@{}", p.short_loc()), "delaney3d::orbifold_graph", serde_json::json!({"symbol": m.to_text()}), p.to_json(), "no panic");
                }
                ops += 1;
            }
        }
        other => {
            eprintln!("unknown workload {}", other);
            std::process::exit(2);
        }
    }
    for v in &ctx.violations {
        println!("VSAN-VIOLATION clause={} api={} input={} observed={}", v.clause, v.api, v.input, v.observed);
    }
    println!("VSAN workload={} seed={} operations={} behavioural_violations={}", workload, seed, ops, ctx.violation_count);
    if ctx.violation_count > 0 {
        std::process::exit(1);
    }
}
