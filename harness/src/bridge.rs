//! Conversions between oracle-side models and the library's types. Library objects are
//! built through the public constructors (`build_set`, `build_sym_using_vs`, `From`), never
//! through the parser, so that parser defects cannot mask or fake other findings.

use crate::oracle::dsym::MSym;
use crate::oracle::groups::{Pres, Table, Word};
use rust_dsymbols::derived::{build_set, build_sym_using_vs};
use rust_dsymbols::dsets::{DSet, PartialDSet, SimpleDSet};
use rust_dsymbols::dsyms::{DSym, PartialDSym, SimpleDSym};
use rust_dsymbols::fpgroups::cosets::CosetTable;
use rust_dsymbols::fpgroups::free_words::FreeWord;

pub fn to_partial_dset(s: &MSym) -> PartialDSet {
    build_set(s.n, s.dim, |i, d| if s.op[i][d] == 0 { None } else { Some(s.op[i][d]) })
}

pub fn to_simple_dset(s: &MSym) -> SimpleDSet {
    SimpleDSet::from(to_partial_dset(s))
}

pub fn to_partial_dsym(s: &MSym) -> PartialDSym {
    build_sym_using_vs(to_partial_dset(s), |i, d| if s.v[i][d] == 0 { None } else { Some(s.v[i][d]) })
}

pub fn to_simple_dsym(s: &MSym) -> SimpleDSym {
    SimpleDSym::from(to_partial_dsym(s))
}

/// Reads a library D-set through `size/dim/op` only.
pub fn from_dset<T: DSet>(ds: &T) -> MSym {
    let (n, dim) = (ds.size(), ds.dim());
    let mut s = MSym::new(dim, n);
    for i in 0..=dim {
        for d in 1..=n {
            s.op[i][d] = ds.op(i, d).unwrap_or(0);
        }
    }
    s
}

/// Reads a library D-symbol through `size/dim/op/v` only.
pub fn from_dsym<T: DSym>(ds: &T) -> MSym {
    let mut s = from_dset(ds);
    for i in 0..s.dim {
        for d in 1..=s.n {
            s.v[i][d] = ds.v(i, i + 1, d).unwrap_or(0);
        }
    }
    s
}

pub fn to_freeword(w: &[i64]) -> FreeWord {
    FreeWord::new(w.iter().map(|&x| x as isize))
}

pub fn from_freeword(w: &FreeWord) -> Word {
    w.iter().map(|&x| x as i64).collect()
}

pub fn to_freewords(ws: &[Word]) -> Vec<FreeWord> {
    ws.iter().map(|w| to_freeword(w)).collect()
}

pub fn from_freewords<'a, I: IntoIterator<Item = &'a FreeWord>>(ws: I) -> Vec<Word> {
    ws.into_iter().map(from_freeword).collect()
}

/// Reads a library coset table through `len/get`; None if some entry is undefined or out of range.
pub fn from_coset_table(ct: &CosetTable) -> Option<Table> {
    let n = ct.len();
    let g = ct.nr_gens();
    let mut t = vec![];
    for r in 0..n {
        let mut row = vec![];
        for k in 1..=g as isize {
            for s in [k, -k] {
                match ct.get(r, s) {
                    Some(a) if a < n => row.push(a),
                    _ => return None,
                }
            }
        }
        t.push(row);
    }
    Some(Table { ngens: g, t })
}

/// Builds a library coset table from an oracle table through the public `set`.
pub fn to_coset_table(t: &Table) -> CosetTable {
    let mut ct = CosetTable::new(t.ngens);
    for r in 0..t.rows() {
        for g in 1..=t.ngens as i64 {
            ct.set(r, g as isize, t.act(r, g));
            ct.set(r, -g as isize, t.act(r, -g));
        }
    }
    ct
}

pub fn pres_to_json(p: &Pres) -> serde_json::Value {
    serde_json::json!({"nr_gens": p.ngens, "relators": p.rels})
}

pub fn pres_from_json(v: &serde_json::Value) -> Option<Pres> {
    let ngens = v.get("nr_gens")?.as_u64()? as usize;
    let rels = v
        .get("relators")?
        .as_array()?
        .iter()
        .map(|w| w.as_array().map(|a| a.iter().filter_map(|x| x.as_i64()).collect::<Word>()))
        .collect::<Option<Vec<Word>>>()?;
    Some(Pres { ngens, rels })
}

/// Parses the model's own text form (used for replay files and corpora): `<a.b:n [dim]:ops:degrees>`.
/// Independent of the library parser; accepts only complete, consistent symbols.
pub fn msym_from_text(text: &str) -> Option<MSym> {
    let t = text.trim();
    let t = t.strip_prefix('<')?.strip_suffix('>')?;
    let parts: Vec<&str> = t.split(':').collect();
    if parts.len() != 4 {
        return None;
    }
    let ext: Vec<usize> = parts[1].split_whitespace().map(|x| x.parse().ok()).collect::<Option<_>>()?;
    let (n, dim) = match ext.len() {
        1 => (ext[0], 2),
        2 => (ext[0], ext[1]),
        _ => return None,
    };
    let ops: Vec<Vec<usize>> = parts[2]
        .split(',')
        .map(|l| l.split_whitespace().map(|x| x.parse().ok()).collect::<Option<Vec<usize>>>())
        .collect::<Option<_>>()?;
    let ms: Vec<Vec<usize>> = parts[3]
        .split(',')
        .map(|l| l.split_whitespace().map(|x| x.parse().ok()).collect::<Option<Vec<usize>>>())
        .collect::<Option<_>>()?;
    if ops.len() != dim + 1 || ms.len() != dim || n == 0 {
        return None;
    }
    let mut s = MSym::new(dim, n);
    for i in 0..=dim {
        let mut k = 0;
        for d in 1..=n {
            if s.op[i][d] == 0 {
                let e = *ops[i].get(k)?;
                k += 1;
                if e < 1 || e > n || (s.op[i][e] != 0 && s.op[i][e] != d) {
                    return None;
                }
                s.op[i][d] = e;
                s.op[i][e] = d;
            }
        }
        if k != ops[i].len() {
            return None;
        }
    }
    for i in 0..dim {
        let mut k = 0;
        let mut seen = vec![false; n + 1];
        for d in 1..=n {
            if !seen[d] {
                let m = *ms[i].get(k)?;
                k += 1;
                let orb = s.orbit(&[i, i + 1], d);
                let r = s.r(i, i + 1, d);
                if m == 0 || m % r != 0 {
                    return None;
                }
                for e in orb {
                    seen[e] = true;
                    s.v[i][e] = m / r;
                }
            }
        }
        if k != ms[i].len() {
            return None;
        }
    }
    Some(s)
}
