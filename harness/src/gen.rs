//! Workload generators: exhaustive universes of small D-sets / D-symbols built by brute
//! force from the definitions, renumberings, and the literature corpus.

use crate::oracle::dsym::MSym;
use crate::oracle::orbifold;
use crate::rng::Rng;
use std::collections::{BTreeMap, HashSet};

/// All involutions on 1..=n as image vectors (index 0 unused).
pub fn involutions(n: usize) -> Vec<Vec<usize>> {
    fn rec(n: usize, cur: &mut Vec<usize>, out: &mut Vec<Vec<usize>>) {
        // find first unassigned
        let d = match (1..=n).find(|&d| cur[d] == 0) {
            Some(d) => d,
            None => {
                out.push(cur.clone());
                return;
            }
        };
        cur[d] = d;
        rec(n, cur, out);
        cur[d] = 0;
        for e in (d + 1)..=n {
            if cur[e] == 0 {
                cur[d] = e;
                cur[e] = d;
                rec(n, cur, out);
                cur[d] = 0;
                cur[e] = 0;
            }
        }
    }
    let mut out = vec![];
    rec(n, &mut vec![0; n + 1], &mut out);
    out
}

/// Calls `f` on every (dim+1)-tuple of involutions on 1..=n whose far operations commute.
/// Labelled: every numbering of every set appears. Includes disconnected sets.
pub fn for_all_sets(dim: usize, n: usize, f: &mut dyn FnMut(&MSym)) {
    let invs = involutions(n);
    let mut idx = vec![0usize; dim + 1];
    let mut s = MSym::new(dim, n);
    fn rec(level: usize, dim: usize, invs: &[Vec<usize>], idx: &mut Vec<usize>, s: &mut MSym, f: &mut dyn FnMut(&MSym)) {
        if level > dim {
            f(s);
            return;
        }
        'next: for k in 0..invs.len() {
            // commutation with all far earlier operations
            for j in 0..level {
                if level - j > 1 {
                    let a = &s.op[j];
                    let b = &invs[k];
                    for d in 1..a.len() {
                        if a[b[d]] != b[a[d]] {
                            continue 'next;
                        }
                    }
                }
            }
            idx[level] = k;
            s.op[level] = invs[k].clone();
            rec(level + 1, dim, invs, idx, s, f);
        }
    }
    rec(0, dim, &invs, &mut idx, &mut s, f);
}

/// All sets of `for_all_sets` collected (careful with sizes).
pub fn all_sets(dim: usize, n: usize) -> Vec<MSym> {
    let mut out = vec![];
    for_all_sets(dim, n, &mut |s| out.push(s.clone()));
    out
}

/// Connected complete commuting D-sets with exactly n chambers, one per isomorphism class,
/// found by brute force over all involution tuples (representative = first seen).
pub fn connected_sets_exact(dim: usize, n: usize) -> Vec<MSym> {
    let mut seen: HashSet<Vec<usize>> = HashSet::new();
    let mut out = vec![];
    for_all_sets(dim, n, &mut |s| {
        if s.is_connected() {
            let c = s.canon_bf();
            if seen.insert(c) {
                out.push(s.clone());
            }
        }
    });
    out
}

/// ... with at most n chambers.
pub fn connected_sets_upto(dim: usize, n: usize) -> Vec<MSym> {
    (1..=n).flat_map(|k| connected_sets_exact(dim, k)).collect()
}

/// The (i,i+1)-orbits of a set: list of (i, representative, members, r).
pub fn adjacent_orbits(s: &MSym) -> Vec<(usize, usize, Vec<usize>, usize)> {
    let mut out = vec![];
    for i in 0..s.dim {
        let mut seen = vec![false; s.n + 1];
        for d in 1..=s.n {
            if !seen[d] {
                let orb = s.orbit(&[i, i + 1], d);
                for &e in &orb {
                    seen[e] = true;
                }
                out.push((i, d, orb, s.r(i, i + 1, d)));
            }
        }
    }
    out
}

/// Calls f on every assignment of branching numbers from `choices(i, r)` to the adjacent orbits.
pub fn for_all_branchings(s: &MSym, choices: &dyn Fn(usize, usize) -> Vec<usize>, f: &mut dyn FnMut(&MSym)) {
    let orbits = adjacent_orbits(s);
    let opts: Vec<Vec<usize>> = orbits.iter().map(|(i, _, _, r)| choices(*i, *r)).collect();
    if opts.iter().any(|o| o.is_empty()) {
        return;
    }
    let mut idx = vec![0usize; orbits.len()];
    let mut sym = s.clone();
    loop {
        for (k, (i, _, members, _)) in orbits.iter().enumerate() {
            for &e in members {
                sym.v[*i][e] = opts[k][idx[k]];
            }
        }
        f(&sym);
        let mut k = 0;
        loop {
            if k == orbits.len() {
                return;
            }
            idx[k] += 1;
            if idx[k] < opts[k].len() {
                break;
            }
            idx[k] = 0;
            k += 1;
        }
    }
}

pub fn all_branchings(s: &MSym, choices: &dyn Fn(usize, usize) -> Vec<usize>) -> Vec<MSym> {
    let mut out = vec![];
    for_all_branchings(s, choices, &mut |x| out.push(x.clone()));
    out
}

/// 2D symbols on all connected sets with <= n chambers and v in 1..=vmax (m >= 1, no lower bound on degree).
pub fn symbols_2d(n: usize, vmax: usize) -> Vec<MSym> {
    let mut out = vec![];
    for s in connected_sets_upto(2, n) {
        for_all_branchings(&s, &|_, _| (1..=vmax).collect(), &mut |x| out.push(x.clone()));
    }
    out
}

/// Is the 2D symbol spherical in the strict sense (positive curvature, good orbifold)?
pub fn is_spherical_2d(s: &MSym) -> bool {
    orbifold::curvature(s).sign() > 0 && !orbifold::orbifold(s).is_bad()
}

/// 3D: all tiles ((0,1,2)-components) and vertex figures ((1,2,3)-components) spherical.
pub fn locally_spherical_3d(s: &MSym) -> bool {
    assert_eq!(s.dim, 3);
    for idcs in [[0usize, 1, 2], [1, 2, 3]] {
        let mut seen = vec![false; s.n + 1];
        for d in 1..=s.n {
            if !seen[d] {
                for e in s.orbit(&idcs, d) {
                    seen[e] = true;
                }
                let sub = s.subsymbol(&idcs, d);
                if !is_spherical_2d(&sub) {
                    return false;
                }
            }
        }
    }
    true
}

/// 3D symbols on connected sets with <= n chambers, v in {1,2,3,4,6}, locally spherical.
pub fn symbols_3d_crystallographic(n: usize) -> Vec<MSym> {
    let mut out = vec![];
    for s in connected_sets_upto(3, n) {
        for_all_branchings(&s, &|_, _| vec![1, 2, 3, 4, 6], &mut |x| {
            if locally_spherical_3d(x) {
                out.push(x.clone());
            }
        });
    }
    out
}

/// All permutations of 1..=n (index 0 unused), n <= 7.
pub fn all_perms1(n: usize) -> Vec<Vec<usize>> {
    fn rec(n: usize, cur: &mut Vec<usize>, used: &mut Vec<bool>, out: &mut Vec<Vec<usize>>) {
        if cur.len() == n + 1 {
            out.push(cur.clone());
            return;
        }
        for x in 1..=n {
            if !used[x] {
                used[x] = true;
                cur.push(x);
                rec(n, cur, used, out);
                cur.pop();
                used[x] = false;
            }
        }
    }
    let mut out = vec![];
    rec(n, &mut vec![0], &mut vec![false; n + 1], &mut out);
    out
}

/// A few renumberings: reverse, rotation, and `k` random ones.
pub fn some_perms1(n: usize, k: usize, rng: &mut Rng) -> Vec<Vec<usize>> {
    let mut out = vec![];
    let mut rev = vec![0];
    rev.extend((1..=n).rev());
    out.push(rev);
    let mut rot = vec![0];
    rot.extend((1..=n).map(|d| d % n + 1));
    out.push(rot);
    for _ in 0..k {
        out.push(rng.perm1(n));
    }
    out
}

pub fn identity_perm1(n: usize) -> Vec<usize> {
    (0..=n).collect()
}

/// Literature symbols quoted by the repository itself as euclidean (tests of simplify.rs,
/// tilings.rs, delaney3d.rs). No other literature can be fetched in this sandbox.
pub const EUCLIDEAN_CORPUS: &[&str] = &[
    "<1.4:1 3:1,1,1,1:4,3,4>",
    "<2.1:2 3:1 2,1 2,1 2,2:3 3,3 4,4>",
    "<513.5:2 3:2,1 2,1 2,2:4,2 4,6>",
    "<513.8:2 3:2,1 2,1 2,2:6,2 3,6>",
    "<3.3:3 3:1 2 3,1 2 3,1 3,2 3:3 3 4,4 4,3>",
    "<167.3:3 3:1 2 3,1 3,2 3,1 2 3:3 4,3,4 6>",
    "<184.4:3 3:1 2 3,1 3,2 3,1 3:4 6,3,3>",
    "<23.14:4 3:1 2 3 4,1 2 4,1 3 4,2 3 4:3 3 8,4 3,3 4>",
    "<71.3:4 3:1 2 3 4,1 2 4,1 3 4,2 4:3 3 6,3 3,4>",
    "<514.7:4 3:2 4,1 2 3 4,1 2 3 4,3 4:4 4,2 4 4 3,4 4>",
    "<553.3:4 3:2 4,1 2 3 4,3 4,2 4:4 6,2 6,4>",
    "<45.2:5 3:1 2 3 5,1 2 4 5,1 3 4 5,2 3 4 5:3 3 3,3 3 3,6 4 4>",
    "<45.7:5 3:1 2 3 5,1 2 4 5,1 3 4 5,2 3 4 5:3 3 3,4 3 3,6 3 3>",
    "<45.12:5 3:1 2 3 5,1 2 4 5,1 3 4 5,2 3 4 5:3 3 6,4 3 3,3 4 4>",
    "<54.2:5 3:1 2 3 5,1 2 4 5,1 3 5,2 3 4 5:3 3 3,3 4,3 6>",
    "<54.4:5 3:1 2 3 5,1 2 4 5,1 3 5,2 3 4 5:3 3 3,4 4,3 4>",
    "<222.77:5 3:1 2 4 5,1 3 5,2 3 4 5,1 5 4:4 12,3 2,3 4>",
    "<1.1:2 3:2,1 2,1 2,2:6,3 2,6>",
    "<1.1:6 3:2 4 6,1 2 3 5 6,3 4 5 6,2 3 4 5 6:6 4,2 3 3,8 4 4>",
];

pub fn corpus() -> Vec<MSym> {
    EUCLIDEAN_CORPUS
        .iter()
        .map(|t| crate::bridge::msym_from_text(t).unwrap_or_else(|| panic!("corpus symbol does not parse: {}", t)))
        .collect()
}

/// Group the symbols by canonical form; returns class representatives count.
pub fn count_iso_classes(syms: &[MSym]) -> usize {
    let mut m: BTreeMap<Vec<usize>, usize> = BTreeMap::new();
    for s in syms {
        *m.entry(s.canon_bf()).or_insert(0) += 1;
    }
    m.len()
}

/// A random connected complete 2D D-set with exactly n chambers, built constructively: the
/// commuting pair (op0, op2) is assembled from blocks of 1, 2 or 4 chambers, op1 is a random
/// involution; retried until connected. Labels are shuffled.
pub fn random_2d_set(rng: &mut Rng, n: usize) -> MSym {
    loop {
        let mut s = MSym::new(2, n);
        let mut free: Vec<usize> = (1..=n).collect();
        rng.shuffle(&mut free);
        while !free.is_empty() {
            let k = free.len();
            let choice = rng.below(8);
            if k >= 4 && choice < 4 {
                let (a, b, c, d) = (free.pop().unwrap(), free.pop().unwrap(), free.pop().unwrap(), free.pop().unwrap());
                s.op[0][a] = b; s.op[0][b] = a; s.op[0][c] = d; s.op[0][d] = c;
                s.op[2][a] = c; s.op[2][c] = a; s.op[2][b] = d; s.op[2][d] = b;
            } else if k >= 2 && choice < 7 {
                let (a, b) = (free.pop().unwrap(), free.pop().unwrap());
                match rng.below(3) {
                    0 => { s.op[0][a] = b; s.op[0][b] = a; s.op[2][a] = a; s.op[2][b] = b; }
                    1 => { s.op[0][a] = a; s.op[0][b] = b; s.op[2][a] = b; s.op[2][b] = a; }
                    _ => { s.op[0][a] = b; s.op[0][b] = a; s.op[2][a] = b; s.op[2][b] = a; }
                }
            } else {
                let a = free.pop().unwrap();
                s.op[0][a] = a;
                s.op[2][a] = a;
            }
        }
        let mut rest: Vec<usize> = (1..=n).collect();
        rng.shuffle(&mut rest);
        while let Some(a) = rest.pop() {
            if !rest.is_empty() && !rng.chance(1, 6) {
                let b = rest.pop().unwrap();
                s.op[1][a] = b;
                s.op[1][b] = a;
            } else {
                s.op[1][a] = a;
            }
        }
        if s.is_connected() {
            debug_assert!(s.is_complete_set() && s.ops_are_involutions() && s.far_ops_commute());
            return s;
        }
    }
}

/// Random branching (constant per orbit) from the given pool.
pub fn random_branching(rng: &mut Rng, s: &MSym, pool: &[usize]) -> MSym {
    let mut x = s.clone();
    for (i, _, members, _) in adjacent_orbits(s) {
        let v = *rng.pick(pool);
        for e in members {
            x.v[i][e] = v;
        }
    }
    x
}

/// Random 2D symbols with 7..=max_n chambers.
pub fn random_larger_2d_symbols(seed: u64, count: usize, max_n: usize, pool: &[usize]) -> Vec<MSym> {
    let mut rng = Rng::stream(seed, 0x2d2d);
    (0..count)
        .map(|_| {
            let n = 7 + rng.below(max_n - 6);
            let s = random_2d_set(&mut rng, n);
            random_branching(&mut rng, &s, pool)
        })
        .collect()
}
