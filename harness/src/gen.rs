//! Workload generators: exhaustive universes of small D-sets / D-symbols built by brute
//! force from the definitions, renumberings, and the literature corpus.

use crate::oracle::dsym::MSym;
use crate::oracle::orbifold;
use crate::rng::Rng;
use std::collections::{BTreeMap, HashSet};

/// All involutions on 1..=n as image vectors (index 0 unused).
pub fn involutions(n: usize) -> Vec<Vec<usize>> {
    fn rec(n: usize, cur: &mut Vec<usize>, out: &mut Vec<Vec<usize>>) {
        // find first unassigned
        let d = match (1..=n).find(|&d| cur[d] == 0) {
            Some(d) => d,
            None => {
                out.push(cur.clone());
                return;
            }
        };
        cur[d] = d;
        rec(n, cur, out);
        cur[d] = 0;
        for e in (d + 1)..=n {
            if cur[e] == 0 {
                cur[d] = e;
                cur[e] = d;
                rec(n, cur, out);
                cur[d] = 0;
                cur[e] = 0;
            }
        }
    }
    let mut out = vec![];
    rec(n, &mut vec![0; n + 1], &mut out);
    out
}

/// Calls `f` on every (dim+1)-tuple of involutions on 1..=n whose far operations commute.
/// Labelled: every numbering of every set appears. Includes disconnected sets.
pub fn for_all_sets(dim: usize, n: usize, f: &mut dyn FnMut(&MSym)) {
    let invs = involutions(n);
    let mut idx = vec![0usize; dim + 1];
    let mut s = MSym::new(dim, n);
    fn rec(level: usize, dim: usize, invs: &[Vec<usize>], idx: &mut Vec<usize>, s: &mut MSym, f: &mut dyn FnMut(&MSym)) {
        if level > dim {
            f(s);
            return;
        }
        'next: for k in 0..invs.len() {
            // commutation with all far earlier operations
            for j in 0..level {
                if level - j > 1 {
                    let a = &s.op[j];
                    let b = &invs[k];
                    for d in 1..a.len() {
                        if a[b[d]] != b[a[d]] {
                            continue 'next;
                        }
                    }
                }
            }
            idx[level] = k;
            s.op[level] = invs[k].clone();
            rec(level + 1, dim, invs, idx, s, f);
        }
    }
    rec(0, dim, &invs, &mut idx, &mut s, f);
}

/// All sets of `for_all_sets` collected (careful with sizes).
pub fn all_sets(dim: usize, n: usize) -> Vec<MSym> {
    let mut out = vec![];
    for_all_sets(dim, n, &mut |s| out.push(s.clone()));
    out
}

/// Connected complete commuting D-sets with exactly n chambers, one per isomorphism class,
/// found by brute force over all involution tuples (representative = first seen).
pub fn connected_sets_exact(dim: usize, n: usize) -> Vec<MSym> {
    let mut seen: HashSet<Vec<usize>> = HashSet::new();
    let mut out = vec![];
    for_all_sets(dim, n, &mut |s| {
        if s.is_connected() {
            let c = s.canon_bf();
            if seen.insert(c) {
                out.push(s.clone());
            }
        }
    });
    out
}

/// ... with at most n chambers.
pub fn connected_sets_upto(dim: usize, n: usize) -> Vec<MSym> {
    (1..=n).flat_map(|k| connected_sets_exact(dim, k)).collect()
}

/// The (i,i+1)-orbits of a set: list of (i, representative, members, r).
pub fn adjacent_orbits(s: &MSym) -> Vec<(usize, usize, Vec<usize>, usize)> {
    let mut out = vec![];
    for i in 0..s.dim {
        let comp = s.components(&[i, i + 1]);
        let nc = (1..=s.n).map(|d| comp[d]).max().map_or(0, |x| x + 1);
        let mut members: Vec<Vec<usize>> = vec![vec![]; nc];
        for d in 1..=s.n {
            members[comp[d]].push(d);
        }
        for orb in members {
            let d = orb[0];
            out.push((i, d, orb, s.r(i, i + 1, d)));
        }
    }
    out
}

/// Calls f on every assignment of branching numbers from `choices(i, r)` to the adjacent orbits.
pub fn for_all_branchings(s: &MSym, choices: &dyn Fn(usize, usize) -> Vec<usize>, f: &mut dyn FnMut(&MSym)) {
    let orbits = adjacent_orbits(s);
    let opts: Vec<Vec<usize>> = orbits.iter().map(|(i, _, _, r)| choices(*i, *r)).collect();
    if opts.iter().any(|o| o.is_empty()) {
        return;
    }
    let mut idx = vec![0usize; orbits.len()];
    let mut sym = s.clone();
    loop {
        for (k, (i, _, members, _)) in orbits.iter().enumerate() {
            for &e in members {
                sym.v[*i][e] = opts[k][idx[k]];
            }
        }
        f(&sym);
        let mut k = 0;
        loop {
            if k == orbits.len() {
                return;
            }
            idx[k] += 1;
            if idx[k] < opts[k].len() {
                break;
            }
            idx[k] = 0;
            k += 1;
        }
    }
}

pub fn all_branchings(s: &MSym, choices: &dyn Fn(usize, usize) -> Vec<usize>) -> Vec<MSym> {
    let mut out = vec![];
    for_all_branchings(s, choices, &mut |x| out.push(x.clone()));
    out
}

/// 2D symbols on all connected sets with <= n chambers and v in 1..=vmax (m >= 1, no lower bound on degree).
pub fn symbols_2d(n: usize, vmax: usize) -> Vec<MSym> {
    let mut out = vec![];
    for s in connected_sets_upto(2, n) {
        for_all_branchings(&s, &|_, _| (1..=vmax).collect(), &mut |x| out.push(x.clone()));
    }
    out
}

/// Is the 2D symbol spherical in the strict sense (positive curvature, good orbifold)?
pub fn is_spherical_2d(s: &MSym) -> bool {
    orbifold::curvature(s).sign() > 0 && !orbifold::orbifold(s).is_bad()
}

/// 3D: all tiles ((0,1,2)-components) and vertex figures ((1,2,3)-components) spherical.
pub fn locally_spherical_3d(s: &MSym) -> bool {
    assert_eq!(s.dim, 3);
    for idcs in [[0usize, 1, 2], [1, 2, 3]] {
        let mut seen = vec![false; s.n + 1];
        for d in 1..=s.n {
            if !seen[d] {
                for e in s.orbit(&idcs, d) {
                    seen[e] = true;
                }
                let sub = s.subsymbol(&idcs, d);
                if !is_spherical_2d(&sub) {
                    return false;
                }
            }
        }
    }
    true
}

/// 3D symbols on connected sets with <= n chambers, v in {1,2,3,4,6}, locally spherical.
pub fn symbols_3d_crystallographic(n: usize) -> Vec<MSym> {
    let mut out = vec![];
    for s in connected_sets_upto(3, n) {
        for_all_branchings(&s, &|_, _| vec![1, 2, 3, 4, 6], &mut |x| {
            if locally_spherical_3d(x) {
                out.push(x.clone());
            }
        });
    }
    out
}

/// All permutations of 1..=n (index 0 unused), n <= 7.
pub fn all_perms1(n: usize) -> Vec<Vec<usize>> {
    fn rec(n: usize, cur: &mut Vec<usize>, used: &mut Vec<bool>, out: &mut Vec<Vec<usize>>) {
        if cur.len() == n + 1 {
            out.push(cur.clone());
            return;
        }
        for x in 1..=n {
            if !used[x] {
                used[x] = true;
                cur.push(x);
                rec(n, cur, used, out);
                cur.pop();
                used[x] = false;
            }
        }
    }
    let mut out = vec![];
    rec(n, &mut vec![0], &mut vec![false; n + 1], &mut out);
    out
}

/// A few renumberings: reverse, rotation, and `k` random ones.
pub fn some_perms1(n: usize, k: usize, rng: &mut Rng) -> Vec<Vec<usize>> {
    let mut out = vec![];
    let mut rev = vec![0];
    rev.extend((1..=n).rev());
    out.push(rev);
    let mut rot = vec![0];
    rot.extend((1..=n).map(|d| d % n + 1));
    out.push(rot);
    for _ in 0..k {
        out.push(rng.perm1(n));
    }
    out
}

pub fn identity_perm1(n: usize) -> Vec<usize> {
    (0..=n).collect()
}

/// Literature symbols quoted by the repository itself as euclidean (tests of simplify.rs,
/// tilings.rs, delaney3d.rs). No other literature can be fetched in this sandbox.
pub const EUCLIDEAN_CORPUS: &[&str] = &[
    "<1.4:1 3:1,1,1,1:4,3,4>",
    "<2.1:2 3:1 2,1 2,1 2,2:3 3,3 4,4>",
    "<513.5:2 3:2,1 2,1 2,2:4,2 4,6>",
    "<513.8:2 3:2,1 2,1 2,2:6,2 3,6>",
    "<3.3:3 3:1 2 3,1 2 3,1 3,2 3:3 3 4,4 4,3>",
    "<167.3:3 3:1 2 3,1 3,2 3,1 2 3:3 4,3,4 6>",
    "<184.4:3 3:1 2 3,1 3,2 3,1 3:4 6,3,3>",
    "<23.14:4 3:1 2 3 4,1 2 4,1 3 4,2 3 4:3 3 8,4 3,3 4>",
    "<71.3:4 3:1 2 3 4,1 2 4,1 3 4,2 4:3 3 6,3 3,4>",
    "<514.7:4 3:2 4,1 2 3 4,1 2 3 4,3 4:4 4,2 4 4 3,4 4>",
    "<553.3:4 3:2 4,1 2 3 4,3 4,2 4:4 6,2 6,4>",
    "<45.2:5 3:1 2 3 5,1 2 4 5,1 3 4 5,2 3 4 5:3 3 3,3 3 3,6 4 4>",
    "<45.7:5 3:1 2 3 5,1 2 4 5,1 3 4 5,2 3 4 5:3 3 3,4 3 3,6 3 3>",
    "<45.12:5 3:1 2 3 5,1 2 4 5,1 3 4 5,2 3 4 5:3 3 6,4 3 3,3 4 4>",
    "<54.2:5 3:1 2 3 5,1 2 4 5,1 3 5,2 3 4 5:3 3 3,3 4,3 6>",
    "<54.4:5 3:1 2 3 5,1 2 4 5,1 3 5,2 3 4 5:3 3 3,4 4,3 4>",
    "<222.77:5 3:1 2 4 5,1 3 5,2 3 4 5,1 5 4:4 12,3 2,3 4>",
    "<1.1:2 3:2,1 2,1 2,2:6,3 2,6>",
    "<1.1:6 3:2 4 6,1 2 3 5 6,3 4 5 6,2 3 4 5 6:6 4,2 3 3,8 4 4>",
];

pub fn corpus() -> Vec<MSym> {
    EUCLIDEAN_CORPUS
        .iter()
        .map(|t| crate::bridge::msym_from_text(t).unwrap_or_else(|| panic!("corpus symbol does not parse: {}", t)))
        .collect()
}

/// Group the symbols by canonical form; returns class representatives count.
pub fn count_iso_classes(syms: &[MSym]) -> usize {
    let mut m: BTreeMap<Vec<usize>, usize> = BTreeMap::new();
    for s in syms {
        *m.entry(s.canon_bf()).or_insert(0) += 1;
    }
    m.len()
}

/// A random connected complete 2D D-set with exactly n chambers, built constructively: the
/// commuting pair (op0, op2) is assembled from blocks of 1, 2 or 4 chambers, op1 is a random
/// involution; retried until connected. Labels are shuffled.
pub fn random_2d_set(rng: &mut Rng, n: usize) -> MSym {
    loop {
        let mut s = MSym::new(2, n);
        let mut free: Vec<usize> = (1..=n).collect();
        rng.shuffle(&mut free);
        while !free.is_empty() {
            let k = free.len();
            let choice = rng.below(8);
            if k >= 4 && choice < 4 {
                let (a, b, c, d) = (free.pop().unwrap(), free.pop().unwrap(), free.pop().unwrap(), free.pop().unwrap());
                s.op[0][a] = b; s.op[0][b] = a; s.op[0][c] = d; s.op[0][d] = c;
                s.op[2][a] = c; s.op[2][c] = a; s.op[2][b] = d; s.op[2][d] = b;
            } else if k >= 2 && choice < 7 {
                let (a, b) = (free.pop().unwrap(), free.pop().unwrap());
                match rng.below(3) {
                    0 => { s.op[0][a] = b; s.op[0][b] = a; s.op[2][a] = a; s.op[2][b] = b; }
                    1 => { s.op[0][a] = a; s.op[0][b] = b; s.op[2][a] = b; s.op[2][b] = a; }
                    _ => { s.op[0][a] = b; s.op[0][b] = a; s.op[2][a] = b; s.op[2][b] = a; }
                }
            } else {
                let a = free.pop().unwrap();
                s.op[0][a] = a;
                s.op[2][a] = a;
            }
        }
        let mut rest: Vec<usize> = (1..=n).collect();
        rng.shuffle(&mut rest);
        while let Some(a) = rest.pop() {
            if !rest.is_empty() && !rng.chance(1, 6) {
                let b = rest.pop().unwrap();
                s.op[1][a] = b;
                s.op[1][b] = a;
            } else {
                s.op[1][a] = a;
            }
        }
        if s.is_connected() {
            debug_assert!(s.is_complete_set() && s.ops_are_involutions() && s.far_ops_commute());
            return s;
        }
    }
}

/// Random branching (constant per orbit) from the given pool.
pub fn random_branching(rng: &mut Rng, s: &MSym, pool: &[usize]) -> MSym {
    let mut x = s.clone();
    for (i, _, members, _) in adjacent_orbits(s) {
        let v = *rng.pick(pool);
        for e in members {
            x.v[i][e] = v;
        }
    }
    x
}

/// Random 2D symbols with 7..=max_n chambers.
pub fn random_larger_2d_symbols(seed: u64, count: usize, max_n: usize, pool: &[usize]) -> Vec<MSym> {
    let mut rng = Rng::stream(seed, 0x2d2d);
    (0..count)
        .map(|_| {
            let n = 7 + rng.below(max_n - 6);
            let s = random_2d_set(&mut rng, n);
            random_branching(&mut rng, &s, pool)
        })
        .collect()
}

/// Branching numbers at representation boundaries (u8, u16, i32, u32, f64 mantissa).
pub const BOUNDARY_VS: &[usize] = &[9, 10, 11, 99, 100, 255, 256, 257, 1000, 2048, 65535, 65536, 65537, 2147483647, 2147483648, 4294967295, 4294967296, 4294967297, 1099511627783, 9007199254740993];

/// 2D strip with n chambers (n even, >= 2): op0 = (1 2)(3 4)..., op1 = (2 3)(4 5)... with 1 and n fixed,
/// op2 = identity. One (0,1)-orbit, n/2 + 1 (1,2)-orbits. `distinct_v` gives every (1,2)-orbit its own
/// branching number, which makes canonical-form computation linear (every seed differs at the first degree).
pub fn strip_2d(n: usize, distinct_v: bool) -> MSym {
    assert!(n >= 2 && n % 2 == 0);
    let mut s = MSym::new(2, n);
    for d in 1..=n {
        s.op[0][d] = if d % 2 == 1 { d + 1 } else { d - 1 };
        s.op[1][d] = if d == 1 || d == n { d } else if d % 2 == 0 { d + 1 } else { d - 1 };
        s.op[2][d] = d;
    }
    if distinct_v {
        // (1,2)-orbits: {1}, {2,3}, {4,5}, ..., {n}
        for d in 1..=n {
            s.v[1][d] = d / 2 + 1;
        }
    }
    debug_assert!(s.is_valid_symbol());
    s
}

/// D-set of all flags of a regular polytope / its antipodal quotient: the regular action of a
/// Coxeter group (or the action on the cosets of a central subgroup) computed by the harness's
/// Todd-Coxeter. `m` lists the Coxeter matrix entries above the diagonal row by row.
pub fn coxeter_flag_set(m: &[&[usize]], quotient_word: Option<&[i64]>) -> MSym {
    use crate::oracle::groups::{todd_coxeter, Pres, Word};
    let n = m.len() + 1;
    let mut rels: Vec<Word> = (1..=n as i64).map(|g| vec![g, g]).collect();
    for i in 0..n {
        for j in (i + 1)..n {
            let mij = m[i][j - i - 1];
            let mut w = vec![];
            for _ in 0..mij {
                w.push(i as i64 + 1);
                w.push(j as i64 + 1);
            }
            rels.push(w);
        }
    }
    let sub: Vec<Word> = quotient_word.map(|w| vec![w.to_vec()]).unwrap_or_default();
    let t = todd_coxeter(&Pres { ngens: n, rels }, &sub, 100_000).expect("finite Coxeter group");
    let mut s = MSym::new(n - 1, t.rows());
    for r in 0..t.rows() {
        for i in 0..n {
            s.op[i][r + 1] = t.act(r, i as i64 + 1) + 1;
        }
    }
    assert!(s.is_complete_set() && s.ops_are_involutions() && s.far_ops_commute() && s.is_connected());
    s
}

/// Named large structured D-sets: flags of the Platonic solids and of projective-plane maps.
pub fn structured_2d_sets() -> Vec<(&'static str, MSym)> {
    let cox3 = |w: &[i64], k: usize| -> Vec<i64> { let mut r = vec![]; for _ in 0..k { r.extend_from_slice(w); } r };
    vec![
        ("tetrahedron flags (24)", coxeter_flag_set(&[&[3, 2], &[3]], None)),
        ("cube flags (48)", coxeter_flag_set(&[&[4, 2], &[3]], None)),
        ("hemi-cube flags (24, projective plane)", coxeter_flag_set(&[&[4, 2], &[3]], Some(&cox3(&[1, 2, 3], 3)))),
        ("hemi-dodecahedron flags (60, projective plane)", coxeter_flag_set(&[&[5, 2], &[3]], Some(&cox3(&[1, 2, 3], 5)))),
        ("dodecahedron flags (120)", coxeter_flag_set(&[&[5, 2], &[3]], None)),
        ("square torus map {4,4}_(2,0) flags (32)", torus_44(2)),
        ("square torus map {4,4}_(3,0) flags (72)", torus_44(3)),
    ]
}

/// Flags of the {4,4} map on the torus with k x k squares: the (2,4,4) triangle group modulo the
/// translation lattice k Z^2, computed as a coset action.
fn torus_44(k: usize) -> MSym {
    // Coxeter group [4,4]: s0 s1 order 4, s1 s2 order 4, s0 s2 order 2; translations: (s0 s1 s2 s1) and (s1 s0 s1 s2)...
    // quotient by the k-th powers of two independent translations t1 = s1 s2 s1 s0 ... use standard
    // generators of the translation subgroup: a = s0 s1 s2 s1, b = s1 s0 s1 s2 (both translations by one square)
    use crate::oracle::groups::{todd_coxeter, Pres, Word};
    let pw = |w: &[i64], k: usize| -> Word { let mut r = vec![]; for _ in 0..k { r.extend_from_slice(w); } r };
    let rels: Vec<Word> = vec![vec![1, 1], vec![2, 2], vec![3, 3], pw(&[1, 2], 4), pw(&[2, 3], 4), pw(&[1, 3], 2)];
    let a: Word = vec![1, 2, 3, 2];
    let b: Word = vec![2, 1, 2, 3];
    // normal closure is needed for a quotient GROUP; for a D-set any subgroup of finite index works,
    // so we take the subgroup generated by a^k, b^k and their conjugates by the generators
    let mut subs: Vec<Word> = vec![];
    for t in [pw(&a, k), pw(&b, k)] {
        subs.push(t.clone());
        for g in 1..=3i64 {
            let mut c = vec![g];
            c.extend_from_slice(&t);
            c.push(g);
            subs.push(c);
        }
    }
    let t = todd_coxeter(&Pres { ngens: 3, rels }, &subs, 100_000).expect("finite index");
    let mut s = MSym::new(2, t.rows());
    for r in 0..t.rows() {
        for i in 0..3 {
            s.op[i][r + 1] = t.act(r, i as i64 + 1) + 1;
        }
    }
    assert!(s.is_complete_set() && s.ops_are_involutions() && s.far_ops_commute() && s.is_connected());
    s
}

/// Flags of regular 4-polytopes (3D D-sets): 5-cell (120), tesseract (384).
pub fn structured_3d_sets() -> Vec<(&'static str, MSym)> {
    vec![
        ("5-cell flags (120)", coxeter_flag_set(&[&[3, 2, 2], &[3, 2], &[3]], None)),
        ("tesseract flags (384)", coxeter_flag_set(&[&[4, 2, 2], &[3, 2], &[3]], None)),
    ]
}

/// Connected 2D set with 4k chambers whose 2-orbits all have at most 4 chambers: k blocks
/// {a,b,c,d} with op0 = (a b)(c d), op2 = (a c)(b d); op1 joins d of block j to a of block j+1 and
/// fixes everything else. Suitable for very large sizes (every query is cheap).
pub fn ladder_2d(k: usize) -> MSym {
    let n = 4 * k;
    let mut s = MSym::new(2, n);
    for j in 0..k {
        let (a, b, c, d) = (4 * j + 1, 4 * j + 2, 4 * j + 3, 4 * j + 4);
        s.op[0][a] = b; s.op[0][b] = a; s.op[0][c] = d; s.op[0][d] = c;
        s.op[2][a] = c; s.op[2][c] = a; s.op[2][b] = d; s.op[2][d] = b;
        for x in [a, b, c, d] {
            s.op[1][x] = x;
        }
    }
    for j in 0..(k - 1) {
        let d = 4 * j + 4;
        let a = 4 * (j + 1) + 1;
        s.op[1][d] = a;
        s.op[1][a] = d;
    }
    debug_assert!(s.is_complete_set() && s.ops_are_involutions() && s.far_ops_commute());
    s
}


/// D-set of all flags of a polyhedron given by its faces as vertex cycles, every edge traversed once in each
/// direction (consistent orientation). Flags are (face, position, end); op0 changes the vertex, op1 the edge,
/// op2 the face.
pub fn polyhedron_flags(faces: &[Vec<usize>]) -> MSym {
    let mut id = std::collections::BTreeMap::new();
    let mut n = 0usize;
    for (f, cyc) in faces.iter().enumerate() {
        for j in 0..cyc.len() {
            for e in 0..2 {
                n += 1;
                id.insert((f, j, e), n);
            }
        }
    }
    // directed edge (a, b) -> (face, position)
    let mut dir = std::collections::BTreeMap::new();
    for (f, cyc) in faces.iter().enumerate() {
        for j in 0..cyc.len() {
            let prev = dir.insert((cyc[j], cyc[(j + 1) % cyc.len()]), (f, j));
            assert!(prev.is_none(), "directed edge used twice");
        }
    }
    let mut s = MSym::new(2, n);
    for (f, cyc) in faces.iter().enumerate() {
        let k = cyc.len();
        for j in 0..k {
            let a = id[&(f, j, 0)];
            let b = id[&(f, j, 1)];
            s.op[0][a] = b;
            s.op[0][b] = a;
            // same vertex cyc[j], same face, other edge: (f, j, 0) <-> (f, j-1, 1)
            let c = id[&(f, (j + k - 1) % k, 1)];
            s.op[1][a] = c;
            s.op[1][c] = a;
            // same edge, same vertex cyc[j], other face: the face running cyc[j+1] -> cyc[j]
            let (f2, j2) = dir[&(cyc[(j + 1) % k], cyc[j])];
            let d = id[&(f2, j2, 1)];
            s.op[2][a] = d;
            s.op[2][d] = a;
        }
    }
    assert!(s.is_complete_set() && s.ops_are_involutions() && s.is_connected(), "polyhedron_flags: not a D-set");
    s
}

/// Flags of the p-gonal prism: 12p chambers, p + 2 faces, 2p vertices.
pub fn prism_flags(p: usize) -> MSym {
    let mut faces: Vec<Vec<usize>> = vec![(0..p).collect(), (0..p).rev().map(|i| p + i).collect()];
    for i in 0..p {
        let j = (i + 1) % p;
        faces.push(vec![j, i, p + i, p + j]);
    }
    polyhedron_flags(&faces)
}
