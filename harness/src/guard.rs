//! Resource-guarded evaluation of single cases.
//!
//! A case whose input is large (tables beyond 2^8 / 2^16 rows, sets beyond 2^16 chambers) can send a
//! *broken* library into unbounded allocation, which `catch_unwind` cannot observe (an allocation
//! failure aborts) and which would take the whole monitor - or the machine - down.  Such cases are
//! judged by the same monitor code in a child process (`vcheck --case-child <prop> <bytes>`) that
//! runs under RLIMIT_AS and a wall-clock limit.  The child's observations (evaluations, counters,
//! digests, violations) are merged into the parent's context.  A child that is killed by a signal
//! (allocation abort, stack overflow) is an observed outcome: the call did not return although the
//! reference result is small - a violation with clause `process-died-under-resource-limit`.  A child
//! that exceeds the wall-clock limit is INCONCLUSIVE, never a violation.

use crate::monitor::{Ctx, Violation};
use serde_json::{json, Value};
use std::io::{Read, Write};
use std::process::{Command, Stdio};
use std::time::{Duration, Instant};

pub fn case_child_main(prop: &str, mem_bytes: u64, release: bool) {
    unsafe {
        let lim = libc::rlimit { rlim_cur: mem_bytes, rlim_max: mem_bytes };
        libc::setrlimit(libc::RLIMIT_AS, &lim);
    }
    let mut text = String::new();
    if std::io::stdin().read_to_string(&mut text).is_err() {
        std::process::exit(3);
    }
    let input: Value = match serde_json::from_str(&text) {
        Ok(v) => v,
        Err(_) => std::process::exit(3),
    };
    let mut ctx = Ctx::new();
    let handled = crate::props::replay_into(prop, &mut ctx, &input, release);
    ctx.absorb_hooks();
    let out = json!({
        "handled": handled,
        "evaluations": ctx.evaluations,
        "nontrivial": ctx.nontrivial.iter().collect::<Vec<_>>(),
        "counters": ctx.counters,
        "hooks": ctx.hooks,
        "violation_count": ctx.violation_count,
        "violations": ctx.violations.iter().map(|v| json!({"clause": v.clause, "api": v.api, "input": v.input, "observed": v.observed, "expected": v.expected})).collect::<Vec<_>>(),
        "out_of_domain": ctx.out_of_domain,
        "inconclusive": ctx.inconclusive,
    });
    let mut so = std::io::stdout();
    let _ = writeln!(so, "{}", out);
    let _ = so.flush();
}

pub enum Guarded {
    /// the child finished; its observations were merged
    Done,
    /// the child was killed by a signal or exited abnormally: recorded as a violation
    Died(String),
    /// wall-clock limit hit: recorded as inconclusive
    TimedOut,
    /// the child could not be started or answered nonsense: recorded as inconclusive
    HarnessError(String),
}

/// Judges `input` with the monitor of `prop` in a child under `mem_bytes` of address space and
/// `wall_secs` of wall-clock time.  `api` / `expect` only label the violation recorded when the child dies.
pub fn guarded_case(ctx: &mut Ctx, prop: &str, release: bool, api: &str, input: &Value, mem_bytes: u64, wall_secs: u64, expect: &str) -> Guarded {
    let exe = match std::env::current_exe() {
        Ok(e) => e,
        Err(e) => {
            ctx.inconclusive.push(format!("guarded case: current_exe failed: {}", e));
            return Guarded::HarnessError(e.to_string());
        }
    };
    let mut cmd = Command::new(exe);
    cmd.arg("--case-child").arg(prop).arg(mem_bytes.to_string());
    if release {
        cmd.arg("--release-lane");
    }
    let mut child = match cmd.stdin(Stdio::piped()).stdout(Stdio::piped()).stderr(Stdio::null()).spawn() {
        Ok(c) => c,
        Err(e) => {
            ctx.inconclusive.push(format!("guarded case: spawn failed: {}", e));
            return Guarded::HarnessError(e.to_string());
        }
    };
    let text = input.to_string();
    let mut stdin = child.stdin.take().unwrap();
    let writer = std::thread::spawn(move || {
        let _ = stdin.write_all(text.as_bytes());
    });
    let mut stdout = child.stdout.take().unwrap();
    let reader = std::thread::spawn(move || {
        let mut s = String::new();
        let _ = stdout.read_to_string(&mut s);
        s
    });
    let deadline = Instant::now() + Duration::from_secs(wall_secs);
    let status = loop {
        match child.try_wait() {
            Ok(Some(st)) => break Some(st),
            Ok(None) => {
                if Instant::now() > deadline {
                    let _ = child.kill();
                    let _ = child.wait();
                    break None;
                }
                std::thread::sleep(Duration::from_millis(20));
            }
            Err(_) => break None,
        }
    };
    let _ = writer.join();
    let answer = reader.join().unwrap_or_default();
    ctx.count("guarded_cases_run_in_a_child_process");
    let status = match status {
        Some(s) => s,
        None => {
            ctx.inconclusive.push(format!("guarded case for {} exceeded the wall-clock limit of {} s (not a verdict)", api, wall_secs));
            return Guarded::TimedOut;
        }
    };
    use std::os::unix::process::ExitStatusExt;
    if status.success() {
        if let Ok(v) = serde_json::from_str::<Value>(answer.trim()) {
            if v.get("handled").and_then(|x| x.as_bool()) != Some(true) {
                ctx.inconclusive.push(format!("guarded case for {}: the child could not rebuild the case", api));
                return Guarded::HarnessError("not handled".into());
            }
            ctx.evaluations += v["evaluations"].as_u64().unwrap_or(0);
            for d in v["nontrivial"].as_array().cloned().unwrap_or_default() {
                if let Some(d) = d.as_u64() {
                    ctx.nontrivial(d);
                }
            }
            for (name, key) in [("counters", 0), ("hooks", 1)] {
                if let Some(m) = v[name].as_object() {
                    for (k, n) in m {
                        let n = n.as_u64().unwrap_or(0);
                        if key == 0 {
                            if !k.starts_with("violation.") {
                                ctx.add(k, n);
                            }
                        } else {
                            *ctx.hooks.entry(k.clone()).or_insert(0) += n;
                        }
                    }
                }
            }
            for w in v["violations"].as_array().cloned().unwrap_or_default() {
                let viol = Violation {
                    clause: w["clause"].as_str().unwrap_or("").to_string(),
                    api: w["api"].as_str().unwrap_or("").to_string(),
                    input: w["input"].clone(),
                    observed: w["observed"].clone(),
                    expected: w["expected"].as_str().unwrap_or("").to_string(),
                };
                ctx.violation(&viol.clause, &viol.api, viol.input, viol.observed, &viol.expected);
            }
            ctx.out_of_domain += v["out_of_domain"].as_u64().unwrap_or(0);
            for r in v["inconclusive"].as_array().cloned().unwrap_or_default() {
                if let Some(r) = r.as_str() {
                    ctx.inconclusive.push(r.to_string());
                }
            }
            return Guarded::Done;
        }
        ctx.inconclusive.push(format!("guarded case for {}: unreadable answer from the child", api));
        return Guarded::HarnessError("unreadable answer".into());
    }
    let reason = match status.signal() {
        Some(sig) => format!("killed by signal {}", sig),
        None => format!("exit status {:?}", status.code()),
    };
    if status.code() == Some(3) {
        ctx.inconclusive.push(format!("guarded case for {}: the child could not read its input", api));
        return Guarded::HarnessError(reason);
    }
    ctx.violation(
        "process-died-under-resource-limit",
        api,
        input.clone(),
        json!({"death": reason, "address_space_limit_bytes": mem_bytes}),
        expect,
    );
    Guarded::Died(reason)
}
