//! Runtime-monitoring harness for odf/rust_dsymbols.
//!
//! `monitor` observes executions of the real library (panic capture, hook
//! counters, evidence), `oracle::*` are independent reference models written
//! from the mathematical definitions (they never call into `rust_dsymbols`),
//! `gen` produces workloads, and `props::cNN` hold one monitor per property.

pub mod rng;
pub mod shapes;
pub mod monitor;
pub mod guard;
pub mod oracle;
pub mod gen;
pub mod bridge;
pub mod props;
