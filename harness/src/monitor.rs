//! Observation layer: panic capture, per-worker contexts, evidence, verdicts.
//!
//! Verdicts are three-valued: VIOLATED (exit 1 + `VIOLATION` line), HELD
//! (exit 0) and INCONCLUSIVE (exit 2, never a VIOLATION line).

use serde_json::{json, Map, Value};
use std::cell::RefCell;
use std::collections::{BTreeMap, BTreeSet, HashSet};
use std::hash::{Hash, Hasher};
use std::panic::{catch_unwind, AssertUnwindSafe};
use std::sync::atomic::{AtomicBool, AtomicUsize, Ordering};
use std::sync::{Arc, Mutex, OnceLock, RwLock};
use std::time::Instant;

#[derive(Clone, Debug)]
pub struct PanicInfo {
    pub msg: String,
    pub loc: String,
}

impl PanicInfo {
    pub fn to_json(&self) -> Value {
        json!({ "panic": self.msg, "at": self.loc })
    }
    /// file:line without column, with the path made relative to the repository.
    pub fn short_loc(&self) -> String {
        let l = self.loc.clone();
        // wherever the repository is checked out (/repo, or a scratch copy under another path), a location
        // inside it reads src/...; locations in std or registry crates keep their full path
        let l = if l.starts_with("/rustc/") || l.contains("/.cargo/") || l.contains("/rustlib/") {
            l
        } else if let Some(k) = l.rfind("/src/") {
            l[k + 1..].to_string()
        } else {
            l
        };
        let mut parts: Vec<&str> = l.split(':').collect();
        if parts.len() >= 3 {
            parts.pop();
        }
        parts.join(":")
    }
}

thread_local! {
    static LAST_PANIC: RefCell<Option<PanicInfo>> = RefCell::new(None);
    static QUIET: RefCell<bool> = RefCell::new(false);
}

static HOOK_INSTALLED: AtomicBool = AtomicBool::new(false);

pub fn install_panic_hook() {
    if HOOK_INSTALLED.swap(true, Ordering::SeqCst) {
        return;
    }
    let default = std::panic::take_hook();
    std::panic::set_hook(Box::new(move |info| {
        let msg = if let Some(s) = info.payload().downcast_ref::<&str>() {
            s.to_string()
        } else if let Some(s) = info.payload().downcast_ref::<String>() {
            s.clone()
        } else {
            "<non-string panic payload>".to_string()
        };
        let loc = info
            .location()
            .map(|l| format!("{}:{}:{}", l.file(), l.line(), l.column()))
            .unwrap_or_else(|| "<unknown>".to_string());
        let quiet = QUIET.with(|q| *q.borrow());
        LAST_PANIC.with(|p| *p.borrow_mut() = Some(PanicInfo { msg, loc }));
        if !quiet {
            default(info);
        }
    }));
}

/// Runs `f` on the real library, turning a panic into a recorded result.
pub fn observe<T>(f: impl FnOnce() -> T) -> Result<T, PanicInfo> {
    install_panic_hook();
    QUIET.with(|q| *q.borrow_mut() = true);
    LAST_PANIC.with(|p| *p.borrow_mut() = None);
    let r = catch_unwind(AssertUnwindSafe(f));
    QUIET.with(|q| *q.borrow_mut() = false);
    match r {
        Ok(v) => Ok(v),
        Err(_) => Err(LAST_PANIC
            .with(|p| p.borrow_mut().take())
            .unwrap_or(PanicInfo { msg: "<panic>".into(), loc: "<unknown>".into() })),
    }
}

pub fn digest<T: Hash + ?Sized>(t: &T) -> u64 {
    #[allow(deprecated)]
    let mut h = std::hash::SipHasher::new();
    t.hash(&mut h);
    h.finish()
}

pub fn digest_str(s: &str) -> u64 {
    let mut h: u64 = 0xcbf29ce484222325;
    for b in s.as_bytes() {
        h ^= *b as u64;
        h = h.wrapping_mul(0x100000001b3);
    }
    h
}

#[derive(Clone, Copy, PartialEq, Eq, Debug)]
pub enum Tier {
    Quick,
    Thorough,
}

impl Tier {
    pub fn name(&self) -> &'static str {
        match self {
            Tier::Quick => "quick",
            Tier::Thorough => "thorough",
        }
    }
    pub fn pick<T>(&self, quick: T, thorough: T) -> T {
        match self {
            Tier::Quick => quick,
            Tier::Thorough => thorough,
        }
    }
}

#[derive(Clone)]
pub struct Cfg {
    pub prop: String,
    pub tier: Tier,
    pub seed: u64,
    pub threads: usize,
    pub lane: String,
    pub verif_dir: String,
}

#[derive(Clone, Debug)]
pub struct Violation {
    pub clause: String,
    pub api: String,
    pub input: Value,
    pub observed: Value,
    pub expected: String,
}

impl Violation {
    pub fn signature(&self, prop: &str) -> String {
        format!(
            "{}|{}|{}|{:016x}",
            prop,
            self.api,
            self.clause,
            digest_str(&self.input.to_string())
        )
    }
}

const MAX_STORED_VIOLATIONS: usize = 40;
const MAX_SAMPLES: usize = 6;

/// Per-worker accumulation of what the monitors observed.
#[derive(Default)]
pub struct Ctx {
    pub evaluations: u64,
    pub nontrivial: HashSet<u64>,
    pub counters: BTreeMap<String, u64>,
    pub hooks: BTreeMap<String, u64>,
    pub distinct: BTreeMap<String, HashSet<u64>>,
    pub violations: Vec<Violation>,
    pub violation_count: u64,
    pub samples: Vec<Value>,
    pub out_of_domain: u64,
    pub inconclusive: Vec<String>,
}

impl Ctx {
    pub fn new() -> Self {
        Ctx::default()
    }

    pub fn eval(&mut self) {
        self.evaluations += 1;
    }

    pub fn evals(&mut self, n: u64) {
        self.evaluations += n;
    }

    pub fn nontrivial(&mut self, d: u64) {
        self.nontrivial.insert(d);
    }

    pub fn count(&mut self, name: &str) {
        self.add(name, 1);
    }

    pub fn add(&mut self, name: &str, n: u64) {
        if let Some(c) = self.counters.get_mut(name) {
            *c += n;
        } else {
            self.counters.insert(name.to_string(), n);
        }
    }

    pub fn distinct(&mut self, name: &str, d: u64) {
        if let Some(s) = self.distinct.get_mut(name) {
            s.insert(d);
        } else {
            self.distinct.insert(name.to_string(), HashSet::from([d]));
        }
    }

    pub fn sample(&mut self, f: impl FnOnce() -> Value) {
        if self.samples.len() < MAX_SAMPLES {
            self.samples.push(f());
        }
    }

    pub fn out_of_domain(&mut self, name: &str) {
        self.out_of_domain += 1;
        self.add(&format!("out_of_domain.{}", name), 1);
    }

    /// Moves the library's hook counters (thread-local) into this context.
    pub fn absorb_hooks(&mut self) {
        for (k, v) in rust_dsymbols::verif_hooks::take() {
            *self.hooks.entry(k.to_string()).or_insert(0) += v;
        }
    }

    pub fn violation(
        &mut self,
        clause: &str,
        api: &str,
        input: Value,
        observed: Value,
        expected: &str,
    ) {
        self.violation_count += 1;
        *self.counters.entry(format!("violation.{}.{}", api, clause)).or_insert(0) += 1;
        let v = Violation {
            clause: clause.to_string(),
            api: api.to_string(),
            input,
            observed,
            expected: expected.to_string(),
        };
        journal(&v);
        self.store_violation(v);
    }

    /// Keeps at most PER_KEY witnesses per (api, clause[, call site]), preferring the smallest inputs. Violations
    /// that are identified by call site (C14's overflow findings) are kept per call site: a flood of hits at the
    /// listed known sites must not evict a hit at a site that is not listed.
    fn store_violation(&mut self, v: Violation) {
        const PER_KEY: usize = 2;
        let size = v.input.to_string().len();
        let same: Vec<usize> = self
            .violations
            .iter()
            .enumerate()
            .filter(|(_, w)| w.api == v.api && w.clause == v.clause && w.input.get("call_site") == v.input.get("call_site"))
            .map(|(i, _)| i)
            .collect();
        if same.iter().any(|&i| self.violations[i].input == v.input) {
            return;
        }
        if same.len() < PER_KEY {
            if self.violations.len() < MAX_STORED_VIOLATIONS {
                self.violations.push(v);
            }
        } else {
            let (worst, worst_size) = same
                .iter()
                .map(|&i| (i, self.violations[i].input.to_string().len()))
                .max_by_key(|&(_, s)| s)
                .unwrap();
            if size < worst_size {
                self.violations[worst] = v;
            }
        }
    }

    /// Records a violation when the observed call panicked; returns the value otherwise.
    pub fn no_panic<T>(
        &mut self,
        api: &str,
        input: impl FnOnce() -> Value,
        r: Result<T, PanicInfo>,
    ) -> Option<T> {
        match r {
            Ok(v) => Some(v),
            Err(p) => {
                let clause = format!("panic@{}", p.short_loc());
                self.violation(&clause, api, input(), p.to_json(), "no panic on an in-domain input");
                None
            }
        }
    }

    pub fn merge(&mut self, other: Ctx) {
        self.evaluations += other.evaluations;
        self.nontrivial.extend(other.nontrivial);
        for (k, v) in other.counters {
            *self.counters.entry(k).or_insert(0) += v;
        }
        for (k, v) in other.hooks {
            *self.hooks.entry(k).or_insert(0) += v;
        }
        for (k, v) in other.distinct {
            self.distinct.entry(k).or_default().extend(v);
        }
        self.violation_count += other.violation_count;
        for v in other.violations {
            self.store_violation(v);
        }
        for s in other.samples {
            if self.samples.len() < MAX_SAMPLES * 2 {
                self.samples.push(s);
            }
        }
        self.out_of_domain += other.out_of_domain;
        self.inconclusive.extend(other.inconclusive);
    }

    pub fn counter(&self, name: &str) -> u64 {
        *self.counters.get(name).unwrap_or(&0)
    }

    pub fn hook(&self, name: &str) -> u64 {
        *self.hooks.get(name).unwrap_or(&0)
    }

    pub fn distinct_count(&self, name: &str) -> u64 {
        self.distinct.get(name).map(|s| s.len() as u64).unwrap_or(0)
    }
}

/// "Poison" calls: deliberately invalid or abandoned calls of the API under test (out-of-range arguments,
/// input iterators that panic half way, texts that fail late in parsing), made on the worker threads *between*
/// judged cases. Their own outcome is not judged (an error or a panic is a legitimate answer to nonsense);
/// what is judged is everything the same thread does afterwards: state of an abandoned call (scratch buffers,
/// thread-local caches) must not leak into later calls. Registered by a property's `run`, invoked by
/// `par_range` before every 4th case (less often when a range has more than 80,000 cases).
type Poison = Arc<dyn Fn(u64) + Send + Sync>;
static POISON: RwLock<Option<Poison>> = RwLock::new(None);
/// at most about this many poison calls per `par_range` (a caught panic costs microseconds to milliseconds)
const MAX_POISON_CALLS: usize = 20_000;

pub fn set_poison(f: impl Fn(u64) + Send + Sync + 'static) {
    *POISON.write().unwrap() = Some(Arc::new(f));
}

pub fn clear_poison() {
    *POISON.write().unwrap() = None;
}

/// Runs `f(ctx, i)` for all i in 0..n on `cfg.threads` workers; returns the merged context.
/// The assignment of indices to workers is dynamic, but everything `f` does must depend
/// only on `i` (and the seed), so results are reproducible.
pub fn par_range<F>(cfg: &Cfg, n: usize, f: F) -> Ctx
where
    F: Fn(&mut Ctx, usize) + Sync,
{
    install_panic_hook();
    let next = AtomicUsize::new(0);
    let merged = Mutex::new(Ctx::new());
    let threads = cfg.threads.max(1).min(n.max(1));
    let chunk = (n / (threads * 16)).clamp(1, 4096);
    std::thread::scope(|s| {
        for _ in 0..threads {
            s.spawn(|| {
                let mut ctx = Ctx::new();
                let poison: Option<Poison> = POISON.read().unwrap().clone();
                let poison_every = (n / MAX_POISON_CALLS).max(4);
                loop {
                    let start = next.fetch_add(chunk, Ordering::Relaxed);
                    if start >= n {
                        break;
                    }
                    for i in start..(start + chunk).min(n) {
                        if let Some(p) = &poison {
                            if i % poison_every == 0 {
                                let guard = in_flight_("poison call", 60, || String::from("\"poison\""), false);
                                let r = catch_unwind(AssertUnwindSafe(|| p((i / poison_every) as u64)));
                                drop(guard);
                                ctx.count("poison.calls_between_judged_cases");
                                if r.is_err() {
                                    LAST_PANIC.with(|p| p.borrow_mut().take());
                                    ctx.count("poison.calls_that_ended_in_a_caught_panic");
                                }
                            }
                        }
                        let r = catch_unwind(AssertUnwindSafe(|| f(&mut ctx, i)));
                        if let Err(_) = r {
                            let p = LAST_PANIC.with(|p| p.borrow_mut().take());
                            ctx.inconclusive.push(format!(
                                "harness panic in case {}: {:?}",
                                i,
                                p.map(|p| format!("{} at {}", p.msg, p.loc))
                            ));
                        }
                    }
                    ctx.absorb_hooks();
                }
                ctx.absorb_hooks();
                merged.lock().unwrap().merge(ctx);
            });
        }
    });
    merged.into_inner().unwrap()
}

/// Same, over a slice of items.
pub fn par_items<I: Sync, F>(cfg: &Cfg, items: &[I], f: F) -> Ctx
where
    F: Fn(&mut Ctx, usize, &I) + Sync,
{
    par_range(cfg, items.len(), |ctx, i| f(ctx, i, &items[i]))
}

pub struct Requirement {
    pub name: String,
    pub observed: u64,
    pub minimum: u64,
}

/// Everything a check reports at the end.
pub struct Report {
    pub cfg: Cfg,
    pub ctx: Ctx,
    pub rule: String,
    pub explanation: String,
    pub exhaustive: bool,
    pub assumptions: Vec<String>,
    pub requirements: Vec<Requirement>,
    pub extra: Map<String, Value>,
    pub started: Instant,
}

impl Report {
    pub fn new(cfg: &Cfg) -> Self {
        Report {
            cfg: cfg.clone(),
            ctx: Ctx::new(),
            rule: String::new(),
            explanation: String::new(),
            exhaustive: false,
            assumptions: vec![],
            requirements: vec![],
            extra: Map::new(),
            started: Instant::now(),
        }
    }

    pub fn absorb(&mut self, ctx: Ctx) {
        self.ctx.merge(ctx);
    }

    pub fn require(&mut self, name: &str, observed: u64, minimum: u64) {
        self.requirements.push(Requirement { name: name.to_string(), observed, minimum });
    }

    pub fn require_counter(&mut self, name: &str, minimum: u64) {
        let v = self.ctx.counter(name);
        self.require(&format!("counter:{}", name), v, minimum);
    }

    pub fn require_hook(&mut self, name: &str, minimum: u64) {
        let v = self.ctx.hook(name);
        self.require(&format!("hook:{}", name), v, minimum);
    }

    pub fn require_distinct(&mut self, name: &str, minimum: u64) {
        let v = self.ctx.distinct_count(name);
        self.require(&format!("distinct:{}", name), v, minimum);
    }

    pub fn assume(&mut self, s: &str) {
        self.assumptions.push(s.to_string());
    }

    pub fn note(&mut self, key: &str, v: Value) {
        self.extra.insert(key.to_string(), v);
    }
}

/// Early journal of violations.
///
/// A violation is an observation of the oracle; it stays one when the monitor process later dies (a mutated
/// library that allocates without bound runs into the address-space fuse) or runs into the watchdog. The
/// first few violations that are not known findings are therefore written out at the moment they are
/// observed: the replay file, and one `VIOLATION` line in `<verif-dir>/replays/.journal-<prop>-<lane>`.
/// `finish` removes the journal (it prints the lines itself); `bin/check` and the watchdog read it when the
/// run did not get that far.
struct Journal {
    prop: String,
    verif_dir: String,
    seed: u64,
    tier: String,
    lane: String,
    known: KnownFindings,
    path: String,
    written: Mutex<BTreeSet<String>>,
}

static JOURNAL: OnceLock<Journal> = OnceLock::new();
const MAX_JOURNAL: usize = 6;

pub fn journal_path(verif_dir: &str, prop: &str, lane: &str) -> String {
    format!("{}/replays/.journal-{}-{}", verif_dir, prop, lane)
}

pub fn open_journal(cfg: &Cfg) {
    let path = journal_path(&cfg.verif_dir, &cfg.prop, &cfg.lane);
    let _ = std::fs::remove_file(&path);
    let _ = JOURNAL.set(Journal {
        prop: cfg.prop.clone(),
        verif_dir: cfg.verif_dir.clone(),
        seed: cfg.seed,
        tier: cfg.tier.name().to_string(),
        lane: cfg.lane.clone(),
        known: KnownFindings::load(&cfg.verif_dir),
        path,
        written: Mutex::new(BTreeSet::new()),
    });
}

fn replay_path(verif_dir: &str, prop: &str, v: &Violation, sig: &str) -> String {
    format!(
        "{}/replays/{}-{}-{:016x}.json",
        verif_dir,
        prop,
        v.clause.replace(|c: char| !c.is_ascii_alphanumeric(), "_").chars().take(40).collect::<String>(),
        digest_str(sig)
    )
}

fn replay_body(prop: &str, v: &Violation, sig: &str, seed: u64, tier: &str, lane: &str) -> Value {
    json!({
        "property": prop,
        "clause": v.clause,
        "api": v.api,
        "input": v.input,
        "observed": v.observed,
        "expected": v.expected,
        "seed": seed,
        "tier": tier,
        "lane": lane,
        "signature": sig,
    })
}

fn journal(v: &Violation) {
    let j = match JOURNAL.get() {
        Some(j) => j,
        None => return,
    };
    let mut w = match j.written.lock() {
        Ok(w) => w,
        Err(_) => return,
    };
    if w.len() >= MAX_JOURNAL {
        return;
    }
    let sig = v.signature(&j.prop);
    if j.known.lookup(&j.prop, &sig).is_some() || !w.insert(sig.clone()) {
        return;
    }
    let _ = std::fs::create_dir_all(format!("{}/replays", j.verif_dir));
    let path = replay_path(&j.verif_dir, &j.prop, v, &sig);
    let body = replay_body(&j.prop, v, &sig, j.seed, &j.tier, &j.lane);
    if std::fs::write(&path, serde_json::to_string_pretty(&body).unwrap_or_default()).is_ok() {
        use std::io::Write;
        if let Ok(mut f) = std::fs::OpenOptions::new().create(true).append(true).open(&j.path) {
            let _ = writeln!(f, "VIOLATION property={} replay={}", j.prop, path);
        }
    }
}

/// The `VIOLATION` lines journalled so far by this process.
pub fn journal_lines() -> Vec<String> {
    match JOURNAL.get() {
        Some(j) => std::fs::read_to_string(&j.path).map(|t| t.lines().filter(|l| l.starts_with("VIOLATION ")).map(|l| l.to_string()).collect()).unwrap_or_default(),
        None => vec![],
    }
}

fn close_journal() {
    if let Some(j) = JOURNAL.get() {
        let _ = std::fs::remove_file(&j.path);
    }
}

// ---------------------------------------------------------------------------------------------------
// Bounded progress of a single call.
//
// "Terminates" cannot be refuted by a finite run, but "returns within 10^5 times what the unchanged library
// needs on an input of this size" can. A monitor brackets a library call with `in_flight(api, budget, input)`;
// a supervisor thread compares the *CPU time of the calling thread* (not wall-clock time: a loaded machine does
// not count against the call) with the budget once a second. A call over budget is journalled as a violation
// with its input, the journal is printed and the process exits with status 1 - the thread cannot be stopped,
// so the run cannot be finished. Budgets are seconds of CPU time for calls that take microseconds.
struct Slot {
    clock: libc::clockid_t,
    start_ns: u64,
    budget_ns: u64,
    api: String,
    input: String,
    /// false for poison calls: their not returning is not a verdict
    judged: bool,
}

const MAX_SLOTS: usize = 64;
static SLOTS: OnceLock<Vec<Mutex<Option<Slot>>>> = OnceLock::new();
static NEXT_SLOT: AtomicUsize = AtomicUsize::new(0);
thread_local! {
    static MY_SLOT: usize = NEXT_SLOT.fetch_add(1, Ordering::Relaxed);
    static MY_CLOCK: libc::clockid_t = {
        let mut cid: libc::clockid_t = 0;
        unsafe { libc::pthread_getcpuclockid(libc::pthread_self(), &mut cid) };
        cid
    };
}

fn slots() -> &'static Vec<Mutex<Option<Slot>>> {
    SLOTS.get_or_init(|| (0..MAX_SLOTS).map(|_| Mutex::new(None)).collect())
}

fn cpu_ns(clock: libc::clockid_t) -> Option<u64> {
    let mut ts = libc::timespec { tv_sec: 0, tv_nsec: 0 };
    if unsafe { libc::clock_gettime(clock, &mut ts) } == 0 {
        Some(ts.tv_sec as u64 * 1_000_000_000 + ts.tv_nsec as u64)
    } else {
        None
    }
}

pub struct InFlight {
    slot: Option<usize>,
}

impl Drop for InFlight {
    fn drop(&mut self) {
        if let Some(k) = self.slot {
            if let Ok(mut s) = slots()[k].lock() {
                *s = None;
            }
        }
    }
}

/// Declares that the calling thread is about to make the library call `api` on `input` and that the call is
/// expected to return within `budget_secs` seconds of this thread's CPU time. Drop the guard after the call.
pub fn in_flight(api: &str, budget_secs: u64, input: impl FnOnce() -> String) -> InFlight {
    in_flight_(api, budget_secs, input, true)
}

fn in_flight_(api: &str, budget_secs: u64, input: impl FnOnce() -> String, judged: bool) -> InFlight {
    let k = MY_SLOT.with(|k| *k);
    if k >= MAX_SLOTS || JOURNAL.get().is_none() {
        return InFlight { slot: None };
    }
    let clock = MY_CLOCK.with(|c| *c);
    let start = match cpu_ns(clock) {
        Some(t) => t,
        None => return InFlight { slot: None },
    };
    if let Ok(mut s) = slots()[k].lock() {
        *s = Some(Slot { clock, start_ns: start, budget_ns: budget_secs * 1_000_000_000, api: api.to_string(), input: input(), judged });
    }
    InFlight { slot: Some(k) }
}

/// Starts the supervisor of `in_flight` calls (once per monitor process, after `open_journal`).
pub fn start_call_supervisor() {
    let prop = match JOURNAL.get() {
        Some(j) => j.prop.clone(),
        None => return,
    };
    std::thread::spawn(move || loop {
        std::thread::sleep(std::time::Duration::from_millis(1000));
        for m in slots().iter() {
            let over = match m.lock() {
                Ok(g) => match g.as_ref() {
                    Some(s) => match cpu_ns(s.clock) {
                        Some(now) if now.saturating_sub(s.start_ns) > s.budget_ns => Some((s.api.clone(), s.input.clone(), (now - s.start_ns) / 1_000_000_000, s.budget_ns / 1_000_000_000, s.judged)),
                        _ => None,
                    },
                    None => None,
                },
                Err(_) => None,
            };
            if let Some((api, input, used, budget, judged)) = over {
                if !judged {
                    // an out-of-domain call that does not return decides nothing about the property
                    let seen = journal_lines();
                    if seen.is_empty() {
                        println!("INCONCLUSIVE property={} reason=a deliberately out-of-domain call between judged cases did not return within {} s of CPU time (not a verdict)", prop, budget);
                        std::process::exit(2);
                    }
                    println!("{} VIOLATED (run cut short: an out-of-domain call did not return; violations observed before that)", prop);
                    for l in seen {
                        println!("{}", l);
                    }
                    std::process::exit(1);
                }
                let v = Violation {
                    clause: "call-did-not-return-within-its-cpu-time-budget".to_string(),
                    api,
                    input: serde_json::from_str(&input).unwrap_or(Value::String(input)),
                    observed: json!({"cpu_seconds_used_by_the_call_so_far": used, "budget_seconds": budget}),
                    expected: "the call returns; the budget is several orders of magnitude above what the unchanged library needs on inputs of this size".to_string(),
                };
                journal(&v);
                println!("{} VIOLATED (a call did not return within its CPU-time budget; the run cannot be finished)", prop);
                for l in journal_lines() {
                    println!("{}", l);
                }
                std::process::exit(1);
            }
        }
    });
}

pub struct KnownFindings {
    pub known: Vec<(String, String, String)>, // (property, sig, text)
}

impl KnownFindings {
    pub fn load(verif_dir: &str) -> Self {
        let mut known = vec![];
        if let Ok(text) = std::fs::read_to_string(format!("{}/known_findings.txt", verif_dir)) {
            for line in text.lines() {
                let line = line.trim();
                if let Some(rest) = line.strip_prefix("known:") {
                    let rest = rest.trim();
                    let mut prop = String::new();
                    let mut sig = String::new();
                    let mut text = vec![];
                    for tok in rest.split_whitespace() {
                        if let Some(p) = tok.strip_prefix("property=") {
                            if prop.is_empty() {
                                prop = p.to_string();
                                continue;
                            }
                        }
                        if let Some(s) = tok.strip_prefix("sig=") {
                            if sig.is_empty() {
                                sig = s.to_string();
                                continue;
                            }
                        }
                        text.push(tok);
                    }
                    if !prop.is_empty() && !sig.is_empty() {
                        known.push((prop, sig, text.join(" ")));
                    }
                }
                // `fixed:` lines suppress nothing.
            }
        }
        KnownFindings { known }
    }

    pub fn lookup(&self, prop: &str, sig: &str) -> Option<&str> {
        self.known
            .iter()
            .find(|(p, s, _)| p == prop && s == sig)
            .map(|(_, _, t)| t.as_str())
    }
}

fn top_counters(m: &BTreeMap<String, u64>) -> Value {
    let mut o = Map::new();
    for (k, v) in m {
        o.insert(k.clone(), json!(v));
    }
    Value::Object(o)
}

/// Writes evidence and replay files, prints verdict lines, returns the exit code.
pub fn finish(mut report: Report) -> i32 {
    let cfg = report.cfg.clone();
    let prop = cfg.prop.clone();
    let known = KnownFindings::load(&cfg.verif_dir);
    let wall = report.started.elapsed().as_secs_f64();

    // classify violations
    let mut new_violations: Vec<(String, Violation)> = vec![];
    let mut known_hits: BTreeMap<String, (String, u64)> = BTreeMap::new();
    let mut seen_sigs = BTreeSet::new();
    for v in report.ctx.violations.drain(..) {
        let sig = v.signature(&prop);
        if let Some(text) = known.lookup(&prop, &sig) {
            known_hits.entry(sig).or_insert((text.to_string(), 0)).1 += 1;
        } else if seen_sigs.insert(sig.clone()) {
            new_violations.push((sig, v));
        }
    }

    // replay files for new violations
    let replay_dir = format!("{}/replays", cfg.verif_dir);
    let mut lines = vec![];
    if !new_violations.is_empty() {
        let _ = std::fs::create_dir_all(&replay_dir);
    }
    for (k, (sig, v)) in new_violations.iter().enumerate() {
        if k >= 25 {
            break;
        }
        let path = replay_path(&cfg.verif_dir, &prop, v, sig);
        let body = replay_body(&prop, v, sig, cfg.seed, cfg.tier.name(), &cfg.lane);
        let _ = std::fs::write(&path, serde_json::to_string_pretty(&body).unwrap());
        lines.push(format!("VIOLATION property={} replay={}", prop, path));
        eprintln!(
            "  clause: {} | api: {} | input: {} | observed: {} | expected: {}",
            v.clause,
            v.api,
            truncate(&v.input.to_string(), 300),
            truncate(&v.observed.to_string(), 300),
            v.expected
        );
    }

    let mut unmet = vec![];
    for r in &report.requirements {
        if r.observed < r.minimum {
            unmet.push(format!("{} observed {} < minimum {}", r.name, r.observed, r.minimum));
        }
    }
    let mut inconclusive = report.ctx.inconclusive.clone();
    inconclusive.extend(unmet.iter().cloned());

    let distinct_nontrivial = report.ctx.nontrivial.len() as u64;
    let violations_total = new_violations.len() as u64;

    let mut coverage = Map::new();
    coverage.insert("evaluations".into(), json!(report.ctx.evaluations));
    coverage.insert("distinct_nontrivial".into(), json!(distinct_nontrivial));
    coverage.insert("rule".into(), json!(report.rule));
    coverage.insert("samples".into(), Value::Array(report.ctx.samples.clone()));
    coverage.insert("exhaustive".into(), json!(report.exhaustive));
    coverage.insert("explanation".into(), json!(report.explanation));
    coverage.insert("oracle_clause_and_outcome_counters".into(), top_counters(&report.ctx.counters));
    coverage.insert("library_hook_counters".into(), top_counters(&report.ctx.hooks));
    let mut d = Map::new();
    for (k, v) in &report.ctx.distinct {
        d.insert(k.clone(), json!(v.len()));
    }
    coverage.insert("distinct_sets".into(), Value::Object(d));
    coverage.insert("out_of_domain".into(), json!(report.ctx.out_of_domain));
    coverage.insert(
        "minimum_observations".into(),
        Value::Array(
            report
                .requirements
                .iter()
                .map(|r| json!({"what": r.name, "observed": r.observed, "minimum": r.minimum}))
                .collect(),
        ),
    );
    coverage.insert("inconclusive_reasons".into(), json!(inconclusive));
    coverage.insert(
        "known_findings_hit".into(),
        Value::Array(
            known_hits
                .iter()
                .map(|(s, (t, n))| json!({"sig": s, "text": t, "times": n}))
                .collect(),
        ),
    );
    coverage.insert("violations_observed_total".into(), json!(report.ctx.violation_count));
    coverage.insert("lane".into(), json!(cfg.lane));
    coverage.insert("threads".into(), json!(cfg.threads));
    for (k, v) in report.extra.iter() {
        coverage.insert(k.clone(), v.clone());
    }

    let verdict = if violations_total > 0 {
        "violated"
    } else if !inconclusive.is_empty() {
        "inconclusive"
    } else {
        "held on everything explored"
    };
    coverage.insert("verdict".into(), json!(verdict));

    let evidence = json!({
        "property_id": prop,
        "tier": cfg.tier.name(),
        "seed": cfg.seed,
        "level": "exploration",
        "coverage": Value::Object(coverage),
        "assumptions": report.assumptions,
        "wall_s": wall,
        "violations": violations_total,
    });
    let evidence_dir = format!("{}/evidence", cfg.verif_dir);
    let _ = std::fs::create_dir_all(&evidence_dir);
    let suffix = if cfg.lane == "checked" { String::new() } else { format!(".{}", cfg.lane) };
    let path = format!("{}/{}{}.json", evidence_dir, prop, suffix);
    if let Err(e) = std::fs::write(&path, serde_json::to_string_pretty(&evidence).unwrap()) {
        eprintln!("cannot write evidence file {}: {}", path, e);
    }

    close_journal();
    for (sig, (text, n)) in &known_hits {
        println!("KNOWN-FINDING: property={} {} (sig={}, seen {}x)", prop, text, sig, n);
    }
    println!(
        "{} {} tier={} seed={} lane={} evaluations={} distinct_nontrivial={} violations={} wall={:.1}s",
        prop,
        verdict.to_uppercase().replace(' ', "_"),
        cfg.tier.name(),
        cfg.seed,
        cfg.lane,
        report.ctx.evaluations,
        distinct_nontrivial,
        violations_total,
        wall
    );
    if violations_total > 0 {
        for l in lines {
            println!("{}", l);
        }
        if new_violations.len() > 25 {
            println!("({} further distinct violations not written out)", new_violations.len() - 25);
        }
        return 1;
    }
    if !inconclusive.is_empty() {
        for r in &inconclusive {
            println!("INCONCLUSIVE property={} reason={}", prop, r);
        }
        return 2;
    }
    0
}

pub fn truncate(s: &str, n: usize) -> String {
    if s.len() <= n {
        s.to_string()
    } else {
        let mut end = n;
        while !s.is_char_boundary(end) {
            end -= 1;
        }
        format!("{}…", &s[..end])
    }
}

/// Wall-clock watchdog: its firing is INCONCLUSIVE, never a violation.
pub fn start_watchdog(prop: &str, secs: u64) {
    let prop = prop.to_string();
    std::thread::spawn(move || {
        std::thread::sleep(std::time::Duration::from_secs(secs));
        let seen = journal_lines();
        if !seen.is_empty() {
            // violations observed before the run got stuck stay violations
            println!("{} VIOLATED (run cut short by the wall-clock watchdog of {}s; violations observed before that)", prop, secs);
            for l in seen {
                println!("{}", l);
            }
            std::process::exit(1);
        }
        println!(
            "INCONCLUSIVE property={} reason=wall-clock watchdog of {}s fired (a call may not have returned)",
            prop, secs
        );
        std::process::exit(2);
    });
}

/// Merges the summaries written by the sanitizer / divergence lanes (bin/lanes) into the
/// report: a sanitizer report is a violation, a lane that could not run is inconclusive.
pub fn absorb_lane_reports(report: &mut Report, files: &[String]) {
    let mut lanes = vec![];
    for f in files {
        let v: Value = match std::fs::read_to_string(f).ok().and_then(|t| serde_json::from_str(&t).ok()) {
            Some(v) => v,
            None => {
                report.ctx.inconclusive.push(format!("lane report {} unreadable", f));
                continue;
            }
        };
        let tool = v.get("tool").and_then(|x| x.as_str()).unwrap_or("?").to_string();
        let ran = v.get("ran").and_then(|x| x.as_bool()).unwrap_or(false);
        let reports = v.get("reports").and_then(|x| x.as_u64()).unwrap_or(0);
        let executed = v.get("operations_executed").and_then(|x| x.as_u64()).unwrap_or(0);
        if !ran {
            report.ctx.inconclusive.push(format!(
                "lane {} did not run: {}",
                tool,
                v.get("detail").and_then(|x| x.as_str()).unwrap_or("")
            ));
        } else if reports > 0 {
            report.ctx.violation(
                &format!("sanitizer-report:{}", tool),
                &tool,
                json!({"lane": tool, "workload": v.get("workload").cloned().unwrap_or(Value::Null), "flags": v.get("flags").cloned().unwrap_or(Value::Null)}),
                json!({"reports": reports, "first_report": v.get("first_report").cloned().unwrap_or(Value::Null), "log": v.get("log").cloned().unwrap_or(Value::Null)}),
                "no undefined behaviour / memory error / divergence report",
            );
        } else if executed == 0 {
            report.ctx.inconclusive.push(format!("lane {} executed no operations", tool));
        }
        report.ctx.evaluations += executed;
        lanes.push(v);
    }
    if !lanes.is_empty() {
        report.note("sanitizer_and_divergence_lanes", Value::Array(lanes));
    }
}
