//! Plain-vector model of Delaney-Dress sets and symbols, with every query computed
//! directly from its definition.

use std::collections::{BTreeSet, VecDeque};

/// `op[i][d]` is the image of chamber d (1-based; index 0 unused) under operation i,
/// 0 meaning "undefined". `v[i][d]` is the branching number of the (i,i+1)-orbit of d
/// (0 meaning "undefined"); plain D-sets carry v = 1 everywhere.
#[derive(Clone, Debug, PartialEq, Eq, Hash, PartialOrd, Ord)]
pub struct MSym {
    pub dim: usize,
    pub n: usize,
    pub op: Vec<Vec<usize>>,
    pub v: Vec<Vec<usize>>,
}

impl MSym {
    pub fn new(dim: usize, n: usize) -> MSym {
        MSym { dim, n, op: vec![vec![0; n + 1]; dim + 1], v: vec![vec![1; n + 1]; dim] }
    }

    pub fn from_ops(dim: usize, n: usize, op: Vec<Vec<usize>>) -> MSym {
        MSym { dim, n, op, v: vec![vec![1; n + 1]; dim] }
    }

    pub fn s(&self, i: usize, d: usize) -> usize {
        self.op[i][d]
    }

    pub fn is_complete_set(&self) -> bool {
        (0..=self.dim).all(|i| (1..=self.n).all(|d| self.op[i][d] != 0))
    }

    /// Every defined operation entry is an involution entry.
    pub fn ops_are_involutions(&self) -> bool {
        (0..=self.dim).all(|i| {
            (1..=self.n).all(|d| {
                let e = self.op[i][d];
                e == 0 || (e >= 1 && e <= self.n && self.op[i][e] == d)
            })
        })
    }

    /// Operations with |i-j| > 1 commute (complete sets only).
    pub fn far_ops_commute(&self) -> bool {
        for i in 0..=self.dim {
            for j in (i + 2)..=self.dim {
                for d in 1..=self.n {
                    let a = self.op[j][self.op[i][d]];
                    let b = self.op[i][self.op[j][d]];
                    if a != b {
                        return false;
                    }
                }
            }
        }
        true
    }

    /// v is constant on (i,i+1)-orbits and nowhere 0.
    pub fn v_consistent(&self) -> bool {
        for i in 0..self.dim {
            for d in 1..=self.n {
                if self.v[i][d] == 0
                    || self.v[i][self.op[i][d]] != self.v[i][d]
                    || self.v[i][self.op[i + 1][d]] != self.v[i][d]
                {
                    return false;
                }
            }
        }
        true
    }

    pub fn is_valid_symbol(&self) -> bool {
        self.n >= 1
            && self.dim >= 1
            && self.is_complete_set()
            && self.ops_are_involutions()
            && self.far_ops_commute()
            && self.v_consistent()
    }

    /// Length of the orbit of d under the product (first i, then j). Complete sets only.
    pub fn r(&self, i: usize, j: usize, d: usize) -> usize {
        let mut e = d;
        let mut k = 0;
        loop {
            e = self.op[j][self.op[i][e]];
            k += 1;
            if e == d {
                return k;
            }
            assert!(k <= 2 * self.n + 2, "not a permutation");
        }
    }

    /// Branching number of the (i,j)-orbit of d, by definition: stored for adjacent
    /// pairs, 2/r for far pairs (m = 2), 1 for i = j.
    pub fn vv(&self, i: usize, j: usize, d: usize) -> usize {
        if i == j {
            1
        } else if i + 1 == j {
            self.v[i][d]
        } else if j + 1 == i {
            self.v[j][d]
        } else {
            2 / self.r(i, j, d)
        }
    }

    pub fn m(&self, i: usize, j: usize, d: usize) -> usize {
        self.r(i, j, d) * self.vv(i, j, d)
    }

    /// Chambers reachable from `seed` using the given operations (sorted).
    pub fn orbit(&self, idcs: &[usize], seed: usize) -> Vec<usize> {
        let mut seen = vec![false; self.n + 1];
        let mut q = VecDeque::from([seed]);
        seen[seed] = true;
        while let Some(d) = q.pop_front() {
            for &i in idcs {
                let e = self.op[i][d];
                if e != 0 && !seen[e] {
                    seen[e] = true;
                    q.push_back(e);
                }
            }
        }
        (1..=self.n).filter(|&d| seen[d]).collect()
    }

    /// Component id per chamber (0-based ids in order of least member) for the given operations.
    pub fn components(&self, idcs: &[usize]) -> Vec<usize> {
        // single pass (no per-component allocation: this is called on sets with > 10^5 chambers)
        let mut comp = vec![usize::MAX; self.n + 1];
        let mut next = 0;
        let mut stack: Vec<usize> = vec![];
        for d in 1..=self.n {
            if comp[d] == usize::MAX {
                comp[d] = next;
                stack.push(d);
                while let Some(x) = stack.pop() {
                    for &i in idcs {
                        let e = self.op[i][x];
                        if e != 0 && comp[e] == usize::MAX {
                            comp[e] = next;
                            stack.push(e);
                        }
                    }
                }
                next += 1;
            }
        }
        comp
    }

    pub fn nr_components(&self, idcs: &[usize]) -> usize {
        let c = self.components(idcs);
        (1..=self.n).map(|d| c[d]).collect::<BTreeSet<_>>().len()
    }

    pub fn all_indices(&self) -> Vec<usize> {
        (0..=self.dim).collect()
    }

    pub fn is_connected(&self) -> bool {
        self.orbit(&self.all_indices(), 1).len() == self.n
    }

    pub fn is_loopless(&self) -> bool {
        (0..=self.dim).all(|i| (1..=self.n).all(|d| self.op[i][d] != d))
    }

    /// Bipartiteness of the chamber graph with loops (and undefined entries) ignored.
    pub fn is_weakly_oriented(&self) -> bool {
        let mut col = vec![0i8; self.n + 1];
        for s in 1..=self.n {
            if col[s] != 0 {
                continue;
            }
            col[s] = 1;
            let mut q = VecDeque::from([s]);
            while let Some(d) = q.pop_front() {
                for i in 0..=self.dim {
                    let e = self.op[i][d];
                    if e == 0 || e == d {
                        continue;
                    }
                    if col[e] == 0 {
                        col[e] = -col[d];
                        q.push_back(e);
                    } else if col[e] == col[d] {
                        return false;
                    }
                }
            }
        }
        true
    }

    pub fn is_oriented(&self) -> bool {
        self.is_loopless() && self.is_weakly_oriented()
    }

    /// Relabel: chamber d becomes p[d] (p a permutation of 1..=n, p[0] unused).
    pub fn renumbered(&self, p: &[usize]) -> MSym {
        let mut r = MSym::new(self.dim, self.n);
        for i in 0..=self.dim {
            for d in 1..=self.n {
                let e = self.op[i][d];
                r.op[i][p[d]] = if e == 0 { 0 } else { p[e] };
            }
        }
        for i in 0..self.dim {
            for d in 1..=self.n {
                r.v[i][p[d]] = self.v[i][d];
            }
        }
        r
    }

    pub fn dual(&self) -> MSym {
        let mut r = MSym::new(self.dim, self.n);
        for i in 0..=self.dim {
            r.op[i] = self.op[self.dim - i].clone();
        }
        for i in 0..self.dim {
            r.v[i] = self.v[self.dim - 1 - i].clone();
        }
        r
    }

    /// Text form `<1.1:n [dim]:ops:degrees>` produced by the model itself (complete symbols).
    pub fn to_text(&self) -> String {
        let mut s = String::from("<1.1:");
        if self.dim == 2 {
            s += &format!("{}:", self.n);
        } else {
            s += &format!("{} {}:", self.n, self.dim);
        }
        for i in 0..=self.dim {
            if i > 0 {
                s += ",";
            }
            let mut first = true;
            for d in 1..=self.n {
                let e = self.op[i][d];
                if e == 0 || e >= d {
                    if !first {
                        s += " ";
                    }
                    first = false;
                    s += &e.to_string();
                }
            }
        }
        s += ":";
        for i in 0..self.dim {
            if i > 0 {
                s += ",";
            }
            let comp = self.components(&[i, i + 1]);
            let mut seen = vec![false; self.n + 1];
            let mut first = true;
            for d in 1..=self.n {
                if !seen[comp[d]] {
                    seen[comp[d]] = true;
                    if !first {
                        s += " ";
                    }
                    first = false;
                    s += &self.m(i, i + 1, d).to_string();
                }
            }
        }
        s += ">";
        s
    }

    /// Code of the relabelling obtained by a breadth-first walk from `start`
    /// (own edge order: queue, indices ascending). Connected complete symbols.
    fn bfs_code(&self, start: usize) -> Vec<usize> {
        let mut new = vec![0usize; self.n + 1];
        let mut old = vec![0usize; self.n + 1];
        let mut next = 1;
        new[start] = next;
        old[next] = start;
        next += 1;
        let mut k = 1;
        while k < next {
            let d = old[k];
            for i in 0..=self.dim {
                let e = self.op[i][d];
                if new[e] == 0 {
                    new[e] = next;
                    old[next] = e;
                    next += 1;
                }
            }
            k += 1;
        }
        assert_eq!(next, self.n + 1, "bfs_code needs a connected symbol");
        let mut code = Vec::with_capacity(self.n * (2 * self.dim + 1));
        for k in 1..=self.n {
            let d = old[k];
            for i in 0..=self.dim {
                code.push(new[self.op[i][d]]);
            }
            for i in 0..self.dim {
                code.push(self.v[i][d]);
            }
        }
        code
    }

    /// Canonical form by brute force: minimum BFS code over all start chambers.
    /// Two connected complete symbols are isomorphic iff these codes (with dim, n) agree.
    pub fn canon_bf(&self) -> Vec<usize> {
        let mut best: Option<Vec<usize>> = None;
        for s in 1..=self.n {
            let c = self.bfs_code(s);
            if best.as_ref().map_or(true, |b| c < *b) {
                best = Some(c);
            }
        }
        let mut r = vec![self.dim, self.n];
        r.extend(best.unwrap());
        r
    }

    /// Canonical code of a possibly disconnected symbol: sorted list of component codes.
    pub fn canon_bf_multi(&self) -> Vec<Vec<usize>> {
        let comp = self.components(&self.all_indices());
        let nc = (1..=self.n).map(|d| comp[d]).max().unwrap() + 1;
        let mut codes = vec![];
        for c in 0..nc {
            let members: Vec<usize> = (1..=self.n).filter(|&d| comp[d] == c).collect();
            codes.push(self.restricted(&members).canon_bf());
        }
        codes.sort();
        codes
    }

    /// Sub-symbol on a set of chambers closed under all operations.
    pub fn restricted(&self, members: &[usize]) -> MSym {
        let mut new = vec![0usize; self.n + 1];
        for (k, &d) in members.iter().enumerate() {
            new[d] = k + 1;
        }
        let mut r = MSym::new(self.dim, members.len());
        for i in 0..=self.dim {
            for &d in members {
                r.op[i][new[d]] = new[self.op[i][d]];
            }
        }
        for i in 0..self.dim {
            for &d in members {
                r.v[i][new[d]] = self.v[i][d];
            }
        }
        r
    }

    /// Sub-symbol on the orbit of `seed` under a subset of the operations (re-indexed 0..).
    pub fn subsymbol(&self, idcs: &[usize], seed: usize) -> MSym {
        let members = self.orbit(idcs, seed);
        let mut new = vec![0usize; self.n + 1];
        for (k, &d) in members.iter().enumerate() {
            new[d] = k + 1;
        }
        let mut r = MSym::new(idcs.len() - 1, members.len());
        for (k, &i) in idcs.iter().enumerate() {
            for &d in &members {
                r.op[k][new[d]] = new[self.op[i][d]];
            }
        }
        for k in 0..(idcs.len() - 1) {
            for &d in &members {
                r.v[k][new[d]] = self.vv(idcs[k], idcs[k + 1], d);
            }
        }
        r
    }

    pub fn iso(&self, other: &MSym) -> bool {
        self.dim == other.dim && self.n == other.n && self.canon_bf() == other.canon_bf()
    }

    /// Degree vector (m(i,i+1,d) for all i).
    pub fn degrees(&self, d: usize) -> Vec<usize> {
        (0..self.dim).map(|i| self.m(i, i + 1, d)).collect()
    }

    /// Coarsest congruence respecting operations and degrees, by Moore refinement.
    /// Returns a class id per chamber (index 0 unused) and the number of classes.
    pub fn coarsest_congruence(&self) -> (Vec<usize>, usize) {
        let mut keys: Vec<Vec<usize>> = (0..=self.n).map(|d| if d == 0 { vec![] } else { self.degrees(d) }).collect();
        let mut class = vec![0usize; self.n + 1];
        let mut count;
        loop {
            // assign class ids by key
            let mut sorted: Vec<&Vec<usize>> = (1..=self.n).map(|d| &keys[d]).collect();
            sorted.sort();
            sorted.dedup();
            let new_count = sorted.len();
            let mut new_class = vec![0usize; self.n + 1];
            for d in 1..=self.n {
                new_class[d] = sorted.binary_search(&&keys[d]).unwrap();
            }
            class = new_class;
            count = new_count;
            // refine
            let mut new_keys: Vec<Vec<usize>> = vec![vec![]; self.n + 1];
            for d in 1..=self.n {
                let mut k = vec![class[d]];
                for i in 0..=self.dim {
                    k.push(class[self.op[i][d]]);
                }
                new_keys[d] = k;
            }
            let mut s2: Vec<&Vec<usize>> = (1..=self.n).map(|d| &new_keys[d]).collect();
            s2.sort();
            s2.dedup();
            if s2.len() == count {
                break;
            }
            keys = new_keys;
        }
        (class, count)
    }

    /// BFS extension of 1 -> img in `target`; returns the full map if it is a valid
    /// morphism (total, commutes with all operations, preserves all degrees).
    /// `self` must be connected and complete, `target` complete with the same dim.
    pub fn morphism_from(&self, target: &MSym, img: usize) -> Option<Vec<usize>> {
        if self.dim != target.dim || img < 1 || img > target.n {
            return None;
        }
        let mut f = vec![0usize; self.n + 1];
        f[1] = img;
        let mut q = VecDeque::from([1usize]);
        while let Some(d) = q.pop_front() {
            for i in 0..=self.dim {
                let e = self.op[i][d];
                let fe = target.op[i][f[d]];
                if f[e] == 0 {
                    f[e] = fe;
                    q.push_back(e);
                } else if f[e] != fe {
                    return None;
                }
            }
        }
        if (1..=self.n).any(|d| f[d] == 0) {
            return None; // not connected
        }
        for d in 1..=self.n {
            for i in 0..=self.dim {
                if f[self.op[i][d]] != target.op[i][f[d]] {
                    return None;
                }
            }
            if self.degrees(d) != target.degrees(f[d]) {
                return None;
            }
        }
        Some(f)
    }

    /// Checks an arbitrary candidate map (index 0 unused) for being a morphism self -> target.
    pub fn is_morphism(&self, target: &MSym, f: &[usize]) -> bool {
        if f.len() != self.n + 1 || self.dim != target.dim {
            return false;
        }
        for d in 1..=self.n {
            if f[d] < 1 || f[d] > target.n {
                return false;
            }
        }
        for d in 1..=self.n {
            for i in 0..=self.dim {
                if f[self.op[i][d]] != target.op[i][f[d]] {
                    return false;
                }
            }
            if self.degrees(d) != target.degrees(f[d]) {
                return false;
            }
        }
        true
    }

    /// All automorphisms (as maps with index 0 unused), by brute force.
    pub fn automorphisms(&self) -> Vec<Vec<usize>> {
        let mut r = vec![];
        for e in 1..=self.n {
            if let Some(f) = self.morphism_from(self, e) {
                // a morphism of a finite connected symbol onto itself is a bijection
                let img: BTreeSet<_> = f[1..].iter().cloned().collect();
                if img.len() == self.n {
                    r.push(f);
                }
            }
        }
        r
    }

    /// Some covering map self -> base (commuting, degree preserving, constant fibre size),
    /// searched over all images of chamber 1. Returns (map, sheets).
    pub fn covering_map_onto(&self, base: &MSym) -> Option<(Vec<usize>, usize)> {
        if self.n % base.n != 0 {
            return None;
        }
        for e in 1..=base.n {
            if let Some(f) = self.morphism_from(base, e) {
                let mut fibre = vec![0usize; base.n + 1];
                for d in 1..=self.n {
                    fibre[f[d]] += 1;
                }
                let k = self.n / base.n;
                if (1..=base.n).all(|b| fibre[b] == k) {
                    return Some((f, k));
                }
            }
        }
        None
    }

    /// Quotient by a congruence given as class ids (0-based) per chamber.
    pub fn quotient(&self, class: &[usize], count: usize) -> MSym {
        let mut r = MSym::new(self.dim, count);
        for d in 1..=self.n {
            for i in 0..=self.dim {
                r.op[i][class[d] + 1] = class[self.op[i][d]] + 1;
            }
        }
        // v from m / r in the quotient
        let mut mm = vec![vec![0usize; count + 1]; self.dim];
        for d in 1..=self.n {
            for i in 0..self.dim {
                mm[i][class[d] + 1] = self.m(i, i + 1, d);
            }
        }
        for i in 0..self.dim {
            for c in 1..=count {
                let rr = r.r(i, i + 1, c);
                r.v[i][c] = mm[i][c] / rr;
            }
        }
        r
    }

    pub fn minimal_image(&self) -> MSym {
        let (class, count) = self.coarsest_congruence();
        self.quotient(&class, count)
    }

    /// Oriented double cover built directly (chambers (d, sign)); connected iff self is
    /// not weakly oriented... used only as an independent generator of covers.
    pub fn double_cover_by_cocycle(&self, flip: &dyn Fn(usize, usize) -> bool) -> MSym {
        // chamber (d, s) -> d + s*n ; flip(i, d) must be symmetric: flip(i,d) == flip(i, op_i d)
        let n = self.n;
        let mut r = MSym::new(self.dim, 2 * n);
        for i in 0..=self.dim {
            for d in 1..=n {
                let e = self.op[i][d];
                for s in 0..2 {
                    let t = if flip(i, d) { 1 - s } else { s };
                    r.op[i][d + s * n] = e + t * n;
                }
            }
        }
        for i in 0..self.dim {
            for d in 1..=2 * n {
                let b = (d - 1) % n + 1;
                let rr = r.r(i, i + 1, d);
                let m = self.m(i, i + 1, b);
                r.v[i][d] = if m % rr == 0 { m / rr } else { 0 };
            }
        }
        r
    }
}
