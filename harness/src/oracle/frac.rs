//! Tiny exact rational type over i128 (always normalised, denominator > 0).

use std::cmp::Ordering;

#[derive(Clone, Copy, Debug, PartialEq, Eq, Hash)]
pub struct Frac {
    pub n: i128,
    pub d: i128,
}

fn gcd(a: i128, b: i128) -> i128 {
    let (mut a, mut b) = (a.abs(), b.abs());
    while b != 0 {
        let t = a % b;
        a = b;
        b = t;
    }
    a
}

impl Frac {
    pub fn new(n: i128, d: i128) -> Frac {
        assert!(d != 0);
        let g = gcd(n, d).max(1);
        let s = if d < 0 { -1 } else { 1 };
        Frac { n: s * n / g, d: s * d / g }
    }
    pub fn int(n: i128) -> Frac {
        Frac { n, d: 1 }
    }
    pub fn add(self, o: Frac) -> Frac {
        Frac::new(self.n * o.d + o.n * self.d, self.d * o.d)
    }
    pub fn sub(self, o: Frac) -> Frac {
        Frac::new(self.n * o.d - o.n * self.d, self.d * o.d)
    }
    pub fn mul(self, o: Frac) -> Frac {
        Frac::new(self.n * o.n, self.d * o.d)
    }
    pub fn div(self, o: Frac) -> Frac {
        assert!(o.n != 0);
        Frac::new(self.n * o.d, self.d * o.n)
    }
    pub fn is_zero(self) -> bool {
        self.n == 0
    }
    pub fn sign(self) -> i32 {
        if self.n > 0 {
            1
        } else if self.n < 0 {
            -1
        } else {
            0
        }
    }
    pub fn to_string(self) -> String {
        if self.d == 1 {
            format!("{}", self.n)
        } else {
            format!("{}/{}", self.n, self.d)
        }
    }
}

impl PartialOrd for Frac {
    fn partial_cmp(&self, other: &Self) -> Option<Ordering> {
        Some(self.cmp(other))
    }
}

impl Ord for Frac {
    fn cmp(&self, other: &Self) -> Ordering {
        (self.n * other.d).cmp(&(other.n * self.d))
    }
}
