//! Minimum cuts by definition: smallest separating subset, by enumeration in increasing
//! size; plus a plain Edmonds-Karp max-flow for networks too big to enumerate.

use std::collections::{BTreeMap, BTreeSet, VecDeque};

pub type Edge = (usize, usize);

/// Vertices reachable from `source` along directed edges, avoiding removed edges/vertices.
pub fn reachable(edges: &[Edge], source: usize, removed_edges: &BTreeSet<Edge>, removed_vertices: &BTreeSet<usize>) -> BTreeSet<usize> {
    let mut adj: BTreeMap<usize, Vec<usize>> = BTreeMap::new();
    for &(v, w) in edges {
        if !removed_edges.contains(&(v, w)) && !removed_vertices.contains(&v) && !removed_vertices.contains(&w) {
            adj.entry(v).or_default().push(w);
        }
    }
    let mut seen = BTreeSet::from([source]);
    let mut q = VecDeque::from([source]);
    while let Some(v) = q.pop_front() {
        if let Some(ws) = adj.get(&v) {
            for &w in ws {
                if seen.insert(w) {
                    q.push_back(w);
                }
            }
        }
    }
    seen
}

fn combos(n: usize, k: usize, f: &mut dyn FnMut(&[usize]) -> bool) -> bool {
    // calls f on every k-subset of 0..n until it returns true
    fn rec(start: usize, n: usize, k: usize, cur: &mut Vec<usize>, f: &mut dyn FnMut(&[usize]) -> bool) -> bool {
        if cur.len() == k {
            return f(cur);
        }
        for x in start..n {
            if n - x < k - cur.len() {
                break;
            }
            cur.push(x);
            if rec(x + 1, n, k, cur, f) {
                return true;
            }
            cur.pop();
        }
        false
    }
    rec(0, n, k, &mut vec![], f)
}

/// Size of a smallest set of (distinct, directed) edges whose removal disconnects sink from source.
pub fn min_edge_cut_size_bf(edges: &[Edge], source: usize, sink: usize) -> usize {
    let uniq: Vec<Edge> = edges.iter().cloned().collect::<BTreeSet<_>>().into_iter().collect();
    for k in 0..=uniq.len() {
        let found = combos(uniq.len(), k, &mut |idx: &[usize]| {
            let rem: BTreeSet<Edge> = idx.iter().map(|&i| uniq[i]).collect();
            !reachable(&uniq, source, &rem, &BTreeSet::new()).contains(&sink)
        });
        if found {
            return k;
        }
    }
    unreachable!()
}

/// Size of a smallest set of vertices (excluding source and sink) whose removal disconnects
/// sink from source; None if source and sink are joined by an edge (no such set exists).
pub fn min_vertex_cut_size_bf(edges: &[Edge], source: usize, sink: usize) -> Option<usize> {
    let uniq: Vec<Edge> = edges.iter().cloned().collect::<BTreeSet<_>>().into_iter().collect();
    if uniq.contains(&(source, sink)) {
        return None;
    }
    let verts: Vec<usize> = uniq.iter().flat_map(|&(v, w)| [v, w]).filter(|&v| v != source && v != sink).collect::<BTreeSet<_>>().into_iter().collect();
    for k in 0..=verts.len() {
        let found = combos(verts.len(), k, &mut |idx: &[usize]| {
            let rem: BTreeSet<usize> = idx.iter().map(|&i| verts[i]).collect();
            !reachable(&uniq, source, &BTreeSet::new(), &rem).contains(&sink)
        });
        if found {
            return Some(k);
        }
    }
    unreachable!()
}

/// Max flow with unit edge capacities (Edmonds-Karp on an adjacency matrix of capacities).
pub fn max_flow_unit(edges: &[Edge], source: usize, sink: usize) -> usize {
    let uniq: BTreeSet<Edge> = edges.iter().cloned().collect();
    let mut cap: BTreeMap<Edge, i64> = BTreeMap::new();
    let mut adj: BTreeMap<usize, BTreeSet<usize>> = BTreeMap::new();
    for &(v, w) in &uniq {
        if v == w {
            continue;
        }
        *cap.entry((v, w)).or_insert(0) += 1;
        cap.entry((w, v)).or_insert(0);
        adj.entry(v).or_default().insert(w);
        adj.entry(w).or_default().insert(v);
    }
    let mut flow = 0;
    loop {
        let mut back: BTreeMap<usize, usize> = BTreeMap::new();
        let mut q = VecDeque::from([source]);
        let mut seen = BTreeSet::from([source]);
        while let Some(v) = q.pop_front() {
            if v == sink {
                break;
            }
            if let Some(ws) = adj.get(&v) {
                for &w in ws {
                    if !seen.contains(&w) && cap[&(v, w)] > 0 {
                        seen.insert(w);
                        back.insert(w, v);
                        q.push_back(w);
                    }
                }
            }
        }
        if !back.contains_key(&sink) {
            return flow;
        }
        let mut w = sink;
        while w != source {
            let v = back[&w];
            *cap.get_mut(&(v, w)).unwrap() -= 1;
            *cap.get_mut(&(w, v)).unwrap() += 1;
            w = v;
        }
        flow += 1;
    }
}

/// Minimum vertex cut size via vertex splitting and max flow (None if source-sink edge exists).
pub fn min_vertex_cut_size_flow(edges: &[Edge], source: usize, sink: usize) -> Option<usize> {
    let uniq: BTreeSet<Edge> = edges.iter().cloned().collect();
    if uniq.contains(&(source, sink)) {
        return None;
    }
    let maxv = uniq.iter().flat_map(|&(v, w)| [v, w]).max().unwrap_or(0).max(source).max(sink) + 1;
    // v_in = v, v_out = v + maxv; internal edge capacity 1 for non-terminal vertices.
    // Unit-capacity representation: terminal vertices are not split.
    let node_in = |v: usize| v;
    let node_out = |v: usize| if v == source || v == sink { v } else { v + maxv };
    let mut e2: Vec<Edge> = vec![];
    let verts: BTreeSet<usize> = uniq.iter().flat_map(|&(v, w)| [v, w]).collect();
    for &v in &verts {
        if v != source && v != sink {
            e2.push((node_in(v), node_out(v)));
        }
    }
    // edges between distinct vertices get capacity 1 as well; since every path through a
    // non-terminal vertex is limited by its internal edge, and source-sink edges are excluded,
    // the max flow equals the minimum vertex cut (Menger).
    for &(v, w) in &uniq {
        if v != w {
            e2.push((node_out(v), node_in(w)));
        }
    }
    Some(max_flow_unit(&e2, source, sink))
}

#[cfg(test)]
mod tests {
    use super::*;
    #[test]
    fn small() {
        let e = vec![(0, 1), (0, 2), (1, 3), (2, 3)];
        assert_eq!(min_edge_cut_size_bf(&e, 0, 3), 2);
        assert_eq!(min_vertex_cut_size_bf(&e, 0, 3), Some(2));
        assert_eq!(max_flow_unit(&e, 0, 3), 2);
        assert_eq!(min_vertex_cut_size_flow(&e, 0, 3), Some(2));
        let e = vec![(0, 1), (1, 2), (1, 3), (2, 4), (3, 4)];
        assert_eq!(min_edge_cut_size_bf(&e, 0, 4), 1);
        assert_eq!(min_vertex_cut_size_bf(&e, 0, 4), Some(1));
        assert_eq!(min_vertex_cut_size_flow(&e, 0, 4), Some(1));
    }
}
