//! Combinatorial group theory oracles: free reduction, Todd-Coxeter (HLT with full
//! coincidence processing), low-index subgroups (own formulation), brute-force
//! homomorphisms into S_k, permutation group order, Reidemeister-Schreier.

use std::collections::{BTreeMap, BTreeSet, HashSet, VecDeque};

pub type Word = Vec<i64>;

pub fn reduce(w: &[i64]) -> Word {
    // cancel until fixpoint, zeros dropped first
    let mut cur: Word = w.iter().cloned().filter(|&x| x != 0).collect();
    loop {
        let mut changed = false;
        let mut out: Word = Vec::with_capacity(cur.len());
        let mut k = 0;
        while k < cur.len() {
            if k + 1 < cur.len() && cur[k] == -cur[k + 1] {
                k += 2;
                changed = true;
            } else {
                out.push(cur[k]);
                k += 1;
            }
        }
        cur = out;
        if !changed {
            return cur;
        }
    }
}

pub fn is_reduced(w: &[i64]) -> bool {
    w.iter().all(|&x| x != 0) && w.windows(2).all(|p| p[0] != -p[1])
}

pub fn inverse(w: &[i64]) -> Word {
    w.iter().rev().map(|x| -x).collect()
}

pub fn concat(a: &[i64], b: &[i64]) -> Word {
    let mut r = a.to_vec();
    r.extend_from_slice(b);
    r
}

pub fn power(w: &[i64], k: i64) -> Word {
    let base = if k < 0 { inverse(w) } else { w.to_vec() };
    let mut r = vec![];
    for _ in 0..k.abs() {
        r.extend_from_slice(&base);
    }
    r
}

pub fn rotate(w: &[i64], k: usize) -> Word {
    if w.is_empty() {
        return vec![];
    }
    let k = k % w.len();
    let mut r = w[k..].to_vec();
    r.extend_from_slice(&w[..k]);
    r
}

#[derive(Clone, Debug, PartialEq, Eq)]
pub struct Pres {
    pub ngens: usize,
    pub rels: Vec<Word>,
}

/// A complete coset table / permutation representation: `t[row][col]`, col = 2*(g-1) for
/// generator g and 2*(g-1)+1 for its inverse.
#[derive(Clone, Debug, PartialEq, Eq, Hash, PartialOrd, Ord)]
pub struct Table {
    pub ngens: usize,
    pub t: Vec<Vec<usize>>,
}

pub fn col(g: i64) -> usize {
    if g > 0 {
        2 * (g as usize - 1)
    } else {
        2 * ((-g) as usize - 1) + 1
    }
}

impl Table {
    pub fn rows(&self) -> usize {
        self.t.len()
    }
    pub fn act(&self, row: usize, g: i64) -> usize {
        self.t[row][col(g)]
    }
    pub fn trace(&self, row: usize, w: &[i64]) -> usize {
        w.iter().fold(row, |r, &g| self.act(r, g))
    }
    /// complete, each generator a permutation with the inverse column its inverse
    pub fn is_valid_action(&self) -> bool {
        let n = self.rows();
        for r in 0..n {
            if self.t[r].len() != 2 * self.ngens {
                return false;
            }
            for g in 1..=self.ngens as i64 {
                let a = self.act(r, g);
                if a >= n || self.act(a, -g) != r {
                    return false;
                }
                let b = self.act(r, -g);
                if b >= n || self.act(b, g) != r {
                    return false;
                }
            }
        }
        true
    }
    pub fn is_transitive(&self) -> bool {
        let n = self.rows();
        if n == 0 {
            return false;
        }
        let mut seen = vec![false; n];
        seen[0] = true;
        let mut q = VecDeque::from([0usize]);
        let mut cnt = 1;
        while let Some(r) = q.pop_front() {
            for c in 0..2 * self.ngens {
                let a = self.t[r][c];
                if !seen[a] {
                    seen[a] = true;
                    cnt += 1;
                    q.push_back(a);
                }
            }
        }
        cnt == n
    }
    pub fn satisfies(&self, rels: &[Word]) -> bool {
        (0..self.rows()).all(|r| rels.iter().all(|w| self.trace(r, w) == r))
    }
    /// Relabelling by BFS from `base` (columns in order); the canonical form of the action
    /// up to relabelling is the minimum over all bases.
    pub fn standardised_from(&self, base: usize) -> Vec<Vec<usize>> {
        let n = self.rows();
        let mut new = vec![usize::MAX; n];
        let mut old = vec![0usize; n];
        new[base] = 0;
        old[0] = base;
        let mut next = 1;
        let mut k = 0;
        while k < next {
            let r = old[k];
            for c in 0..2 * self.ngens {
                let a = self.t[r][c];
                if new[a] == usize::MAX {
                    new[a] = next;
                    old[next] = a;
                    next += 1;
                }
            }
            k += 1;
        }
        assert_eq!(next, n, "standardised_from needs a transitive action");
        (0..n).map(|k| self.t[old[k]].iter().map(|&a| new[a]).collect()).collect()
    }
    pub fn canonical(&self) -> Vec<Vec<usize>> {
        (0..self.rows()).map(|b| self.standardised_from(b)).min().unwrap()
    }
    /// generator images as permutations (0-based)
    pub fn gen_perms(&self) -> Vec<Vec<usize>> {
        (1..=self.ngens as i64).map(|g| (0..self.rows()).map(|r| self.act(r, g)).collect()).collect()
    }
}

// ---------------------------------------------------------------------------
// Todd-Coxeter, HLT strategy, complete coincidence processing.

struct Tc {
    ncols: usize,
    t: Vec<Vec<i64>>, // -1 undefined
    p: Vec<usize>,    // p[c] = c live; else smaller equivalent
    live: usize,
    max_rows: usize,
    overflow: bool,
}

impl Tc {
    fn rep(&mut self, mut c: usize) -> usize {
        let mut r = c;
        while self.p[r] != r {
            r = self.p[r];
        }
        while self.p[c] != r {
            let n = self.p[c];
            self.p[c] = r;
            c = n;
        }
        r
    }

    fn define(&mut self, c: usize, x: usize) -> Option<usize> {
        if self.t.len() >= self.max_rows {
            self.overflow = true;
            return None;
        }
        let d = self.t.len();
        self.t.push(vec![-1; self.ncols]);
        self.p.push(d);
        self.live += 1;
        self.t[c][x] = d as i64;
        self.t[d][x ^ 1] = c as i64;
        Some(d)
    }

    fn coincidence(&mut self, a: usize, b: usize) {
        let mut q: VecDeque<usize> = VecDeque::new();
        self.merge(a, b, &mut q);
        while let Some(g) = q.pop_front() {
            for x in 0..self.ncols {
                let d = self.t[g][x];
                if d >= 0 {
                    let d = d as usize;
                    self.t[g][x] = -1;
                    // remove the back pointer if it points to g
                    if self.t[d][x ^ 1] == g as i64 {
                        self.t[d][x ^ 1] = -1;
                    }
                    let m = self.rep(g);
                    let v = self.rep(d);
                    let mx = self.t[m][x];
                    let vx = self.t[v][x ^ 1];
                    if mx >= 0 {
                        self.merge(v, mx as usize, &mut q);
                    } else if vx >= 0 {
                        self.merge(m, vx as usize, &mut q);
                    } else {
                        self.t[m][x] = v as i64;
                        self.t[v][x ^ 1] = m as i64;
                    }
                }
            }
        }
    }

    fn merge(&mut self, a: usize, b: usize, q: &mut VecDeque<usize>) {
        let a = self.rep(a);
        let b = self.rep(b);
        if a != b {
            let (lo, hi) = (a.min(b), a.max(b));
            self.p[hi] = lo;
            self.live -= 1;
            q.push_back(hi);
        }
    }

    fn scan_and_fill(&mut self, c: usize, w: &[i64]) -> bool {
        if w.is_empty() {
            return true;
        }
        let cols: Vec<usize> = w.iter().map(|&g| col(g)).collect();
        let n = cols.len();
        let mut f = c;
        let mut i = 0usize;
        let mut b = c;
        let mut j = n; // scanned w[j..] backwards
        loop {
            while i < j && self.t[f][cols[i]] >= 0 {
                f = self.t[f][cols[i]] as usize;
                i += 1;
            }
            if i == j {
                if f != b {
                    self.coincidence(f, b);
                }
                return true;
            }
            while j > i && self.t[b][cols[j - 1] ^ 1] >= 0 {
                b = self.t[b][cols[j - 1] ^ 1] as usize;
                j -= 1;
            }
            if j == i {
                if f != b {
                    self.coincidence(f, b);
                }
                return true;
            } else if j == i + 1 {
                self.t[f][cols[i]] = b as i64;
                self.t[b][cols[i] ^ 1] = f as i64;
                return true;
            } else {
                match self.define(f, cols[i]) {
                    Some(_) => {}
                    None => return false,
                }
            }
        }
    }
}

/// Coset enumeration of <subgens> in <gens | rels>. Returns None if more than `max_rows`
/// cosets had to be defined (inconclusive), else the complete standardised table.
pub fn todd_coxeter(p: &Pres, subgens: &[Word], max_rows: usize) -> Option<Table> {
    let ncols = 2 * p.ngens;
    let mut tc = Tc { ncols, t: vec![vec![-1; ncols]], p: vec![0], live: 1, max_rows, overflow: false };
    let rels: Vec<Word> = p.rels.iter().map(|w| reduce(w)).filter(|w| !w.is_empty()).collect();
    for w in subgens {
        let w = reduce(w);
        if !tc.scan_and_fill(0, &w) {
            return None;
        }
    }
    let mut c = 0;
    while c < tc.t.len() {
        if tc.p[c] == c {
            for w in &rels {
                if tc.p[c] != c {
                    break;
                }
                if !tc.scan_and_fill(c, w) {
                    return None;
                }
            }
            if tc.p[c] == c {
                for x in 0..ncols {
                    if tc.p[c] != c {
                        break;
                    }
                    if tc.t[c][x] < 0 {
                        if tc.define(c, x).is_none() {
                            return None;
                        }
                    }
                }
            }
        }
        c += 1;
    }
    // compress
    let n = tc.t.len();
    let mut new = vec![usize::MAX; n];
    let mut k = 0;
    for c in 0..n {
        if tc.p[c] == c {
            new[c] = k;
            k += 1;
        }
    }
    let mut t = vec![];
    for c in 0..n {
        if tc.p[c] == c {
            let mut row = vec![];
            for x in 0..ncols {
                let d = tc.t[c][x];
                assert!(d >= 0);
                let d = tc.rep(d as usize);
                row.push(new[d]);
            }
            t.push(row);
        }
    }
    let table = Table { ngens: p.ngens, t };
    // the oracle validates its own output
    assert!(table.is_valid_action() && table.is_transitive() && table.satisfies(&rels));
    for w in subgens {
        assert_eq!(table.trace(0, w), 0);
    }
    Some(table)
}

/// Order of the group if Todd-Coxeter over the trivial subgroup finishes within the bound.
pub fn order(p: &Pres, max_rows: usize) -> Option<usize> {
    todd_coxeter(p, &[], max_rows).map(|t| t.rows())
}

// ---------------------------------------------------------------------------
// Presentation simplification (sound Tietze moves only).

/// Eliminates generators g with a relator `g` (trivial) or `g h^{±1}` (g = h^{∓1}, g != h),
/// repeatedly. Returns the new presentation and, for each old generator, its image as a word
/// in the new generators.
pub fn tietze_reduce(p: &Pres) -> (Pres, Vec<Word>) {
    let n = p.ngens;
    // image[g-1] as a word over the ORIGINAL generator names; substitute until stable
    let mut image: Vec<Word> = (1..=n as i64).map(|g| vec![g]).collect();
    let mut rels: Vec<Word> = p.rels.iter().map(|w| reduce(w)).collect();
    let mut eliminated = vec![false; n];
    loop {
        let mut subst: Option<(i64, Word)> = None;
        for w in &rels {
            if w.len() == 1 {
                subst = Some((w[0].abs(), vec![]));
                break;
            }
            if w.len() == 2 && w[0].abs() != w[1].abs() {
                // w0 w1 = 1  =>  w0 = w1^{-1}; eliminate the larger name
                let (a, b) = if w[0].abs() > w[1].abs() { (w[0], w[1]) } else { (w[1], w[0]) };
                // a b = 1 or b a = 1 both give a = b^{-1}
                let img = if a > 0 { vec![-b] } else { vec![b] };
                subst = Some((a.abs(), img));
                break;
            }
        }
        let (g, img) = match subst {
            Some(s) => s,
            None => break,
        };
        eliminated[g as usize - 1] = true;
        let sub = |w: &Word| -> Word {
            let mut out = vec![];
            for &x in w {
                if x == g {
                    out.extend_from_slice(&img);
                } else if x == -g {
                    out.extend(inverse(&img));
                } else {
                    out.push(x);
                }
            }
            reduce(&out)
        };
        rels = rels.iter().map(|w| sub(w)).filter(|w| !w.is_empty()).collect();
        for k in 0..n {
            image[k] = sub(&image[k]);
        }
        let set: BTreeSet<Word> = rels.into_iter().collect();
        rels = set.into_iter().collect();
    }
    // rename remaining generators 1..m
    let mut name = vec![0i64; n + 1];
    let mut m = 0;
    for g in 1..=n {
        if !eliminated[g - 1] {
            m += 1;
            name[g] = m;
        }
    }
    let ren = |w: &Word| -> Word { w.iter().map(|&x| if x > 0 { name[x as usize] } else { -name[(-x) as usize] }).collect() };
    let rels2: Vec<Word> = rels.iter().map(|w| ren(w)).collect();
    let image2: Vec<Word> = image.iter().map(|w| ren(w)).collect();
    for w in rels2.iter().chain(image2.iter()) {
        assert!(w.iter().all(|&x| x != 0), "eliminated generator survived");
    }
    (Pres { ngens: m as usize, rels: rels2 }, image2)
}

/// General Tietze elimination: while some relator of length <= max_len contains a generator
/// exactly once (as g or g^-1), solve for it, substitute everywhere and drop the relator.
/// Stops when the total relator length would exceed `max_total`.
pub fn tietze_eliminate(p: &Pres, max_len: usize, max_total: usize) -> Pres {
    let mut rels: Vec<Word> = p.rels.iter().map(|w| reduce(w)).filter(|w| !w.is_empty()).collect();
    let mut alive: Vec<bool> = vec![true; p.ngens + 1];
    loop {
        let mut choice: Option<(usize, i64, Word)> = None; // (relator index, generator, replacement for generator)
        'search: for (k, r) in rels.iter().enumerate() {
            if r.len() > max_len {
                continue;
            }
            for (pos, &x) in r.iter().enumerate() {
                let g = x.abs();
                if r.iter().filter(|&&y| y.abs() == g).count() == 1 {
                    // r = u x v  =>  x = u^-1 v^-1
                    let u = &r[..pos];
                    let v = &r[pos + 1..];
                    let mut rhs = inverse(u);
                    rhs.extend(inverse(v));
                    let rhs = reduce(&rhs);
                    let repl = if x > 0 { rhs } else { inverse(&rhs) };
                    choice = Some((k, g, repl));
                    break 'search;
                }
            }
        }
        let (k, g, repl) = match choice {
            Some(c) => c,
            None => break,
        };
        let inv = inverse(&repl);
        let mut new_rels: Vec<Word> = vec![];
        for (j, r) in rels.iter().enumerate() {
            if j == k {
                continue;
            }
            let mut out = vec![];
            for &x in r {
                if x == g {
                    out.extend_from_slice(&repl);
                } else if x == -g {
                    out.extend_from_slice(&inv);
                } else {
                    out.push(x);
                }
            }
            let out = reduce(&out);
            if !out.is_empty() {
                new_rels.push(out);
            }
        }
        let total: usize = new_rels.iter().map(|w| w.len()).sum();
        if total > max_total {
            break;
        }
        let set: BTreeSet<Word> = new_rels.into_iter().collect();
        rels = set.into_iter().collect();
        alive[g as usize] = false;
    }
    let mut name = vec![0i64; p.ngens + 1];
    let mut m = 0;
    for g in 1..=p.ngens {
        if alive[g] {
            m += 1;
            name[g] = m;
        }
    }
    let rels2: Vec<Word> = rels.iter().map(|w| w.iter().map(|&x| if x > 0 { name[x as usize] } else { -name[(-x) as usize] }).collect()).collect();
    Pres { ngens: m as usize, rels: rels2 }
}

// ---------------------------------------------------------------------------
// Low-index subgroups: all transitive actions on <= k points up to relabelling.

struct LowIndex<'a> {
    ngens: usize,
    k: usize,
    rels_by_first: Vec<Vec<&'a Word>>, // all cyclic conjugates of relators and inverses, by first column
    out: BTreeSet<Vec<Vec<usize>>>,
    budget: u64,
    exhausted: bool,
}

fn all_cyclic_conjugates(rels: &[Word]) -> Vec<Word> {
    let mut s = BTreeSet::new();
    for w in rels {
        let w = reduce(w);
        // cyclically reduce
        let mut w = w;
        while w.len() >= 2 && w[0] == -w[w.len() - 1] {
            w = w[1..w.len() - 1].to_vec();
        }
        if w.is_empty() {
            continue;
        }
        for k in 0..w.len() {
            let r = rotate(&w, k);
            s.insert(inverse(&r));
            s.insert(r);
        }
    }
    s.into_iter().collect()
}

impl<'a> LowIndex<'a> {
    /// scan relator w from row c in partial table; returns false on contradiction,
    /// pushes deductions.
    fn scan(t: &mut Vec<Vec<i64>>, c: usize, w: &Word, ded: &mut Vec<(usize, usize)>) -> bool {
        let cols: Vec<usize> = w.iter().map(|&g| col(g)).collect();
        let n = cols.len();
        let mut f = c;
        let mut i = 0;
        while i < n && t[f][cols[i]] >= 0 {
            f = t[f][cols[i]] as usize;
            i += 1;
        }
        if i == n {
            return f == c;
        }
        let mut b = c;
        let mut j = n;
        while j > i && t[b][cols[j - 1] ^ 1] >= 0 {
            b = t[b][cols[j - 1] ^ 1] as usize;
            j -= 1;
        }
        if j == i {
            return f == b;
        }
        if j == i + 1 {
            // deduction f --cols[i]--> b ; must be consistent with injectivity
            if t[b][cols[i] ^ 1] >= 0 {
                return t[b][cols[i] ^ 1] as usize == f;
            }
            t[f][cols[i]] = b as i64;
            t[b][cols[i] ^ 1] = f as i64;
            ded.push((f, cols[i]));
            ded.push((b, cols[i] ^ 1));
        }
        true
    }

    fn process(&self, t: &mut Vec<Vec<i64>>, mut ded: Vec<(usize, usize)>) -> bool {
        while let Some((c, x)) = ded.pop() {
            for w in &self.rels_by_first[x] {
                if !Self::scan(t, c, w, &mut ded) {
                    return false;
                }
            }
        }
        true
    }

    fn search(&mut self, t: Vec<Vec<i64>>) {
        if self.budget == 0 {
            self.exhausted = true;
            return;
        }
        self.budget -= 1;
        // first undefined entry
        let mut free = None;
        'outer: for c in 0..t.len() {
            for x in 0..2 * self.ngens {
                if t[c][x] < 0 {
                    free = Some((c, x));
                    break 'outer;
                }
            }
        }
        match free {
            None => {
                let table = Table {
                    ngens: self.ngens,
                    t: t.iter().map(|r| r.iter().map(|&a| a as usize).collect()).collect(),
                };
                self.out.insert(table.canonical());
            }
            Some((c, x)) => {
                let n = t.len();
                for d in 0..=n {
                    if d == n {
                        if n >= self.k {
                            break;
                        }
                        let mut t2 = t.clone();
                        t2.push(vec![-1; 2 * self.ngens]);
                        t2[c][x] = d as i64;
                        t2[d][x ^ 1] = c as i64;
                        if self.process(&mut t2, vec![(c, x), (d, x ^ 1)]) {
                            self.search(t2);
                        }
                    } else if t[d][x ^ 1] < 0 {
                        let mut t2 = t.clone();
                        t2[c][x] = d as i64;
                        t2[d][x ^ 1] = c as i64;
                        if self.process(&mut t2, vec![(c, x), (d, x ^ 1)]) {
                            self.search(t2);
                        }
                    }
                }
            }
        }
    }
}

/// All transitive permutation representations on at most k points, one per equivalence
/// class under relabelling (= conjugacy classes of subgroups of index <= k), as canonical
/// tables. None if the node budget was exhausted.
pub fn low_index(p: &Pres, k: usize, budget: u64) -> Option<Vec<Table>> {
    let conj = all_cyclic_conjugates(&p.rels);
    let mut by_first: Vec<Vec<&Word>> = vec![vec![]; 2 * p.ngens.max(1)];
    for w in &conj {
        by_first[col(w[0])].push(w);
    }
    let mut li = LowIndex { ngens: p.ngens, k, rels_by_first: by_first, out: BTreeSet::new(), budget, exhausted: false };
    if p.ngens == 0 {
        return Some(vec![Table { ngens: 0, t: vec![vec![]] }]);
    }
    li.search(vec![vec![-1; 2 * p.ngens]]);
    if li.exhausted {
        return None;
    }
    let rels: Vec<Word> = p.rels.iter().map(|w| reduce(w)).collect();
    let tables: Vec<Table> = li.out.iter().map(|t| Table { ngens: p.ngens, t: t.clone() }).collect();
    for t in &tables {
        assert!(t.is_valid_action() && t.is_transitive() && t.satisfies(&rels), "low_index oracle produced an invalid table");
    }
    Some(tables)
}

/// Number of classes per index 1..=k.
pub fn low_index_profile(p: &Pres, k: usize, budget: u64) -> Option<Vec<usize>> {
    let ts = low_index(p, k, budget)?;
    let mut prof = vec![0; k + 1];
    for t in ts {
        prof[t.rows()] += 1;
    }
    Some(prof[1..].to_vec())
}

// ---------------------------------------------------------------------------
// Ground truth by brute force: all homomorphisms into S_n.

fn perms_of(n: usize) -> Vec<Vec<usize>> {
    fn rec(cur: &mut Vec<usize>, used: &mut Vec<bool>, n: usize, out: &mut Vec<Vec<usize>>) {
        if cur.len() == n {
            out.push(cur.clone());
            return;
        }
        for x in 0..n {
            if !used[x] {
                used[x] = true;
                cur.push(x);
                rec(cur, used, n, out);
                cur.pop();
                used[x] = false;
            }
        }
    }
    let mut out = vec![];
    rec(&mut vec![], &mut vec![false; n], n, &mut out);
    out
}

fn inv_perm(p: &[usize]) -> Vec<usize> {
    let mut r = vec![0; p.len()];
    for (i, &x) in p.iter().enumerate() {
        r[x] = i;
    }
    r
}

/// Number of conjugacy classes of subgroups of index exactly n, by enumerating every
/// tuple of permutations of n points, keeping those that satisfy the relators and act
/// transitively, and counting them up to simultaneous conjugation.
/// Cost (n!)^ngens; returns None if that exceeds `limit`.
pub fn classes_of_index_bf(p: &Pres, n: usize, limit: f64) -> Option<usize> {
    let perms = perms_of(n);
    let total = (perms.len() as f64).powi(p.ngens as i32);
    if total > limit {
        return None;
    }
    let invs: Vec<Vec<usize>> = perms.iter().map(|q| inv_perm(q)).collect();
    let rels: Vec<Word> = p.rels.iter().map(|w| reduce(w)).collect();
    let mut classes: HashSet<Vec<Vec<usize>>> = HashSet::new();
    let mut idx = vec![0usize; p.ngens];
    loop {
        // build table
        let t: Vec<Vec<usize>> = (0..n)
            .map(|r| {
                let mut row = Vec::with_capacity(2 * p.ngens);
                for g in 0..p.ngens {
                    row.push(perms[idx[g]][r]);
                    row.push(invs[idx[g]][r]);
                }
                row
            })
            .collect();
        let table = Table { ngens: p.ngens, t };
        if table.satisfies(&rels) && table.is_transitive() {
            classes.insert(table.canonical());
        }
        // next tuple
        let mut g = 0;
        loop {
            if g == p.ngens {
                return Some(classes.len());
            }
            idx[g] += 1;
            if idx[g] < perms.len() {
                break;
            }
            idx[g] = 0;
            g += 1;
        }
    }
}

// ---------------------------------------------------------------------------
// Permutation groups (small degree): order by closure.

pub fn perm_group_order(gens: &[Vec<usize>], cap: usize) -> Option<usize> {
    if gens.is_empty() {
        return Some(1);
    }
    let n = gens[0].len();
    let id: Vec<usize> = (0..n).collect();
    let mut seen: HashSet<Vec<usize>> = HashSet::from([id.clone()]);
    let mut q = VecDeque::from([id]);
    while let Some(p) = q.pop_front() {
        for g in gens {
            let r: Vec<usize> = (0..n).map(|i| g[p[i]]).collect();
            if seen.insert(r.clone()) {
                if seen.len() > cap {
                    return None;
                }
                q.push_back(r);
            }
        }
    }
    Some(seen.len())
}

// ---------------------------------------------------------------------------
// Reidemeister-Schreier: presentation of the stabiliser of `base` in a transitive action.

pub fn reidemeister_schreier(p: &Pres, table: &Table, base: usize) -> Pres {
    let n = table.rows();
    // BFS spanning tree over positive and negative generators
    let mut in_tree: BTreeSet<(usize, usize)> = BTreeSet::new(); // (row, col) tree edges, both directions
    let mut seen = vec![false; n];
    seen[base] = true;
    let mut q = VecDeque::from([base]);
    while let Some(r) = q.pop_front() {
        for g in 1..=p.ngens as i64 {
            for s in [g, -g] {
                let a = table.act(r, s);
                if !seen[a] {
                    seen[a] = true;
                    in_tree.insert((r, col(s)));
                    in_tree.insert((a, col(-s)));
                    q.push_back(a);
                }
            }
        }
    }
    // Schreier generators: one per non-tree edge (row, positive generator)
    let mut name: BTreeMap<(usize, usize), i64> = BTreeMap::new();
    let mut m = 0i64;
    for r in 0..n {
        for g in 1..=p.ngens as i64 {
            if !in_tree.contains(&(r, col(g))) {
                m += 1;
                name.insert((r, col(g)), m);
            }
        }
    }
    let letter = |r: usize, s: i64| -> Option<i64> {
        if s > 0 {
            name.get(&(r, col(s))).cloned()
        } else {
            // traversing edge (a --g--> r) backwards where a = act(r, s)
            let a = table.act(r, s);
            name.get(&(a, col(-s))).map(|x| -x)
        }
    };
    let mut rels = BTreeSet::new();
    for r in 0..n {
        for w in &p.rels {
            let mut out = vec![];
            let mut c = r;
            for &s in w {
                if let Some(l) = letter(c, s) {
                    out.push(l);
                }
                c = table.act(c, s);
            }
            let out = reduce(&out);
            if !out.is_empty() {
                rels.insert(out);
            }
        }
    }
    Pres { ngens: m as usize, rels: rels.into_iter().collect() }
}

#[cfg(test)]
mod tests {
    use super::*;

    fn pres(n: usize, rels: &[&[i64]]) -> Pres {
        Pres { ngens: n, rels: rels.iter().map(|w| w.to_vec()).collect() }
    }

    #[test]
    fn tc_orders() {
        // S3
        assert_eq!(order(&pres(2, &[&[1, 1], &[2, 2], &[1, 2, 1, 2, 1, 2]]), 1000), Some(6));
        // A5 = (2,3,5)
        assert_eq!(order(&pres(2, &[&[1, 1], &[2, 2, 2], &[1, 2, 1, 2, 1, 2, 1, 2, 1, 2]]), 5000), Some(60));
        // Q8
        assert_eq!(order(&pres(2, &[&[1, 1, -2, -2], &[1, 2, 1, -2]]), 1000), Some(8));
        // trivial group: a b a^-1 = b^2, b a b^-1 = a^2
        assert_eq!(order(&pres(2, &[&[1, 2, -1, -2, -2], &[2, 1, -2, -1, -1]]), 100000), Some(1));
        // non-normal subgroup <b> of S3 has index 3
        let t = todd_coxeter(&pres(2, &[&[1, 1], &[2, 2], &[1, 2, 1, 2, 1, 2]]), &[vec![2]], 100).unwrap();
        assert_eq!(t.rows(), 3);
    }

    #[test]
    fn low_index_counts() {
        // free group of rank 2: classes of index 1,2,3 = 1,3,7
        assert_eq!(low_index_profile(&pres(2, &[]), 3, 1_000_000), Some(vec![1, 3, 7]));
        // Z^2: 1,3,4,7
        assert_eq!(low_index_profile(&pres(2, &[&[1, 2, -1, -2]]), 4, 1_000_000), Some(vec![1, 3, 4, 7]));
        // Z^3: 1,7,13,35
        let z3 = pres(3, &[&[1, 2, -1, -2], &[1, 3, -1, -3], &[2, 3, -2, -3]]);
        assert_eq!(low_index_profile(&z3, 4, 10_000_000), Some(vec![1, 7, 13, 35]));
        // S3: subgroups up to conjugacy: index 1 (S3), 2 (A3), 3 (C2), 6 (1)
        let s3 = pres(2, &[&[1, 1], &[2, 2], &[1, 2, 1, 2, 1, 2]]);
        assert_eq!(low_index_profile(&s3, 6, 1_000_000), Some(vec![1, 1, 1, 0, 0, 1]));
        for n in 1..=4 {
            assert_eq!(classes_of_index_bf(&s3, n, 1e9).unwrap(), low_index_profile(&s3, 6, 1_000_000).unwrap()[n - 1]);
            assert_eq!(classes_of_index_bf(&z3, n, 1e9).unwrap(), [1, 7, 13, 35][n - 1]);
        }
    }

    #[test]
    fn tietze() {
        let p = pres(4, &[&[1], &[2, 3], &[3, 3, 4], &[4, 4]]);
        let (q, img) = tietze_reduce(&p);
        // 1 -> e, 3 -> 2^-1, so 2^-2 4 = 1 -> 4 = 2^2 ... only length<=2 relators are used:
        assert!(q.ngens <= 2);
        assert_eq!(img[0], Vec::<i64>::new());
        assert_eq!(order(&p, 1000), order(&q, 1000));
    }

    #[test]
    fn tietze_general() {
        let s3 = pres(3, &[&[1, 1], &[2, 2], &[1, 2, 1, 2, 1, 2], &[1, 2, -3]]);
        let q = tietze_eliminate(&s3, 8, 1000);
        assert_eq!(q.ngens, 2);
        assert_eq!(order(&q, 1000), Some(6));
        let a5 = pres(2, &[&[1, 1], &[2, 2, 2], &[1, 2, 1, 2, 1, 2, 1, 2, 1, 2]]);
        let t = todd_coxeter(&a5, &[vec![1]], 1000).unwrap();
        let h = reidemeister_schreier(&a5, &t, 3);
        let hq = tietze_eliminate(&h, 10, 5000);
        assert_eq!(order(&hq, 5000), Some(2));
        assert_eq!(order(&h, 5000), Some(2));
    }

    #[test]
    fn rs_index() {
        let s3 = pres(2, &[&[1, 1], &[2, 2], &[1, 2, 1, 2, 1, 2]]);
        let t = todd_coxeter(&s3, &[vec![2]], 100).unwrap();
        for b in 0..3 {
            let h = reidemeister_schreier(&s3, &t, b);
            assert_eq!(order(&h, 1000), Some(2));
        }
        let t = todd_coxeter(&s3, &[], 100).unwrap();
        let h = reidemeister_schreier(&s3, &t, 0);
        assert_eq!(order(&h, 1000), Some(1));
    }
}
