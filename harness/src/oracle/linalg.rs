//! Exact linear algebra over Q (BigRational) and over Z/p (u128 arithmetic),
//! written directly from the textbook definitions.

use num_bigint::BigInt;
use num_rational::BigRational;
use num_traits::{One, Zero};

pub type Q = BigRational;
pub type QMat = Vec<Vec<Q>>;

pub fn q(n: i64) -> Q {
    Q::from_integer(BigInt::from(n))
}

pub fn qmat(m: &[Vec<i64>]) -> QMat {
    m.iter().map(|r| r.iter().map(|&x| q(x)).collect()).collect()
}

pub fn mat_mul(a: &QMat, b: &QMat) -> QMat {
    let n = a.len();
    let k = b.len();
    let m = if k > 0 { b[0].len() } else { 0 };
    let mut r = vec![vec![Q::zero(); m]; n];
    for i in 0..n {
        for j in 0..m {
            let mut s = Q::zero();
            for t in 0..k {
                s += &a[i][t] * &b[t][j];
            }
            r[i][j] = s;
        }
    }
    r
}

/// Reduced row echelon form; returns (rref, pivot columns).
pub fn rref(a: &QMat, ncols: usize) -> (QMat, Vec<usize>) {
    let mut m = a.clone();
    let nrows = m.len();
    let mut pivots = vec![];
    let mut row = 0;
    for c in 0..ncols {
        if row >= nrows {
            break;
        }
        let mut p = None;
        for r in row..nrows {
            if !m[r][c].is_zero() {
                p = Some(r);
                break;
            }
        }
        let p = match p {
            Some(p) => p,
            None => continue,
        };
        m.swap(row, p);
        let inv = Q::one() / m[row][c].clone();
        for j in 0..ncols {
            m[row][j] = &m[row][j] * &inv;
        }
        for r in 0..nrows {
            if r != row && !m[r][c].is_zero() {
                let f = m[r][c].clone();
                for j in 0..ncols {
                    let s = &f * &m[row][j];
                    m[r][j] -= s;
                }
            }
        }
        pivots.push(c);
        row += 1;
    }
    (m, pivots)
}

pub fn rank(a: &QMat, ncols: usize) -> usize {
    rref(a, ncols).1.len()
}

/// Determinant by the Leibniz formula (n <= 7).
pub fn det_leibniz(a: &QMat) -> Q {
    let n = a.len();
    fn rec(a: &QMat, row: usize, used: &mut Vec<bool>, sign: i32, acc: &Q, total: &mut Q) {
        let n = a.len();
        if row == n {
            if sign > 0 {
                *total += acc;
            } else {
                *total -= acc;
            }
            return;
        }
        let mut inversions = 0;
        for c in (0..n).rev() {
            let _ = c;
        }
        for c in 0..n {
            if used[c] {
                continue;
            }
            if a[row][c].is_zero() {
                continue;
            }
            // inversions contributed: number of used columns greater than c
            inversions = (c + 1..n).filter(|&x| used[x]).count();
            used[c] = true;
            let s = if inversions % 2 == 0 { sign } else { -sign };
            let acc2 = acc * &a[row][c];
            rec(a, row + 1, used, s, &acc2, total);
            used[c] = false;
        }
        let _ = inversions;
    }
    let mut total = Q::zero();
    rec(a, 0, &mut vec![false; n], 1, &Q::one(), &mut total);
    total
}

/// Determinant by fraction elimination (any n).
pub fn det_elim(a: &QMat) -> Q {
    let n = a.len();
    let mut m = a.clone();
    let mut d = Q::one();
    for c in 0..n {
        let mut p = None;
        for r in c..n {
            if !m[r][c].is_zero() {
                p = Some(r);
                break;
            }
        }
        let p = match p {
            Some(p) => p,
            None => return Q::zero(),
        };
        if p != c {
            m.swap(p, c);
            d = -d;
        }
        d = &d * &m[c][c];
        for r in (c + 1)..n {
            if !m[r][c].is_zero() {
                let f = &m[r][c] / &m[c][c];
                for j in c..n {
                    let s = &f * &m[c][j];
                    m[r][j] -= s;
                }
            }
        }
    }
    d
}

/// Is A x = b consistent over Q?  (rank [A|b] == rank A, column by column of B)
pub fn consistent(a: &QMat, ncols: usize, b: &QMat) -> bool {
    let ra = rank(a, ncols);
    let nb = if b.is_empty() { 0 } else { b[0].len() };
    let aug: QMat = a.iter().zip(b.iter()).map(|(r, s)| r.iter().cloned().chain(s.iter().cloned()).collect()).collect();
    rank(&aug, ncols + nb) == ra
}

/// The unique solution of a square non-singular system, by rref.
pub fn solve_unique(a: &QMat, b: &QMat) -> Option<QMat> {
    let n = a.len();
    let nb = if b.is_empty() { 0 } else { b[0].len() };
    let aug: QMat = a.iter().zip(b.iter()).map(|(r, s)| r.iter().cloned().chain(s.iter().cloned()).collect()).collect();
    let (m, piv) = rref(&aug, n + nb);
    if piv.len() != n || piv.iter().enumerate().any(|(i, &c)| c != i) {
        return None;
    }
    Some((0..n).map(|i| (0..nb).map(|j| m[i][n + j].clone()).collect()).collect())
}

// ---------------------------------------------------------------------------
// Z/p with u128 arithmetic

pub fn modp(n: i128, p: i128) -> i128 {
    ((n % p) + p) % p
}

pub fn inv_mod(a: i128, p: i128) -> i128 {
    // Fermat: a^(p-2)
    let mut result = 1i128;
    let mut base = modp(a, p);
    let mut e = p - 2;
    while e > 0 {
        if e & 1 == 1 {
            result = result * base % p;
        }
        base = base * base % p;
        e >>= 1;
    }
    result
}

pub fn rank_mod(a: &[Vec<i128>], ncols: usize, p: i128) -> usize {
    let mut m: Vec<Vec<i128>> = a.iter().map(|r| r.iter().map(|&x| modp(x, p)).collect()).collect();
    let nrows = m.len();
    let mut row = 0;
    for c in 0..ncols {
        if row >= nrows {
            break;
        }
        let mut pv = None;
        for r in row..nrows {
            if m[r][c] != 0 {
                pv = Some(r);
                break;
            }
        }
        let pv = match pv {
            Some(x) => x,
            None => continue,
        };
        m.swap(row, pv);
        let inv = inv_mod(m[row][c], p);
        for j in 0..ncols {
            m[row][j] = m[row][j] * inv % p;
        }
        for r in 0..nrows {
            if r != row && m[r][c] != 0 {
                let f = m[r][c];
                for j in 0..ncols {
                    m[r][j] = modp(m[r][j] - f * m[row][j], p);
                }
            }
        }
        row += 1;
    }
    row
}

pub fn det_mod(a: &[Vec<i128>], p: i128) -> i128 {
    let n = a.len();
    let mut m: Vec<Vec<i128>> = a.iter().map(|r| r.iter().map(|&x| modp(x, p)).collect()).collect();
    let mut d = 1i128;
    for c in 0..n {
        let mut pv = None;
        for r in c..n {
            if m[r][c] != 0 {
                pv = Some(r);
                break;
            }
        }
        let pv = match pv {
            Some(x) => x,
            None => return 0,
        };
        if pv != c {
            m.swap(pv, c);
            d = modp(-d, p);
        }
        d = d * m[c][c] % p;
        let inv = inv_mod(m[c][c], p);
        for r in (c + 1)..n {
            if m[r][c] != 0 {
                let f = m[r][c] * inv % p;
                for j in c..n {
                    m[r][j] = modp(m[r][j] - f * m[c][j], p);
                }
            }
        }
    }
    d
}

pub fn mat_mul_mod(a: &[Vec<i128>], b: &[Vec<i128>], p: i128) -> Vec<Vec<i128>> {
    let n = a.len();
    let k = b.len();
    let m = if k > 0 { b[0].len() } else { 0 };
    let mut r = vec![vec![0i128; m]; n];
    for i in 0..n {
        for j in 0..m {
            let mut s = 0i128;
            for t in 0..k {
                s = (s + modp(a[i][t], p) * modp(b[t][j], p)) % p;
            }
            r[i][j] = s;
        }
    }
    r
}

pub fn consistent_mod(a: &[Vec<i128>], ncols: usize, b: &[Vec<i128>], p: i128) -> bool {
    let nb = if b.is_empty() { 0 } else { b[0].len() };
    let aug: Vec<Vec<i128>> = a.iter().zip(b.iter()).map(|(r, s)| r.iter().cloned().chain(s.iter().cloned()).collect()).collect();
    rank_mod(&aug, ncols + nb, p) == rank_mod(a, ncols, p)
}

#[cfg(test)]
mod tests {
    use super::*;
    #[test]
    fn dets() {
        let a = qmat(&[vec![1, 2, 3], vec![4, 5, 6], vec![7, 8, 10]]);
        assert_eq!(det_leibniz(&a), q(-3));
        assert_eq!(det_elim(&a), q(-3));
        let a = qmat(&[vec![0, 1, 0, 0], vec![1, 0, 0, 0], vec![0, 0, 0, 1], vec![0, 0, 1, 0]]);
        assert_eq!(det_leibniz(&a), q(1));
        assert_eq!(det_elim(&a), q(1));
        let a = qmat(&[vec![0, 1], vec![1, 0]]);
        assert_eq!(det_leibniz(&a), q(-1));
        let a = vec![vec![1i128, 2, 3], vec![4, 5, 6], vec![7, 8, 10]];
        assert_eq!(det_mod(&a, 7), modp(-3, 7));
        assert_eq!(rank(&qmat(&[vec![1, 2], vec![2, 4]]), 2), 1);
    }
}
