//! Independent reference models. Nothing in this module tree uses `rust_dsymbols`.

pub mod dsym;
pub mod orbifold;
pub mod groups;
pub mod pi1;
pub mod snf;
pub mod linalg;
pub mod graphs;
pub mod quickfind;
pub mod frac;
