//! 2D orbifold data of a complete connected 2D symbol, from the definitions, plus a
//! parser for Conway-style orbifold symbols and their orbifold Euler characteristic.

use super::dsym::MSym;
use super::frac::Frac;
use std::collections::BTreeSet;

#[derive(Clone, Debug, PartialEq, Eq)]
pub struct Orbifold {
    /// cone orders (> 1), sorted descending
    pub cones: Vec<usize>,
    /// one cyclic corner sequence (orders > 1) per boundary component, each in a
    /// normal form invariant under rotation and reversal; the list is sorted
    pub boundaries: Vec<Vec<usize>>,
    pub handles: usize,
    pub crosscaps: usize,
    pub orientable: bool,
    /// orientable surface with boundary: the components read consistently with ONE orientation of the
    /// surface (each up to rotation only), the whole list up to simultaneous reversal of all components -
    /// on an orientable orbifold the relative reading direction of two chiral components is part of the
    /// orbifold (`*725*643` and `*752*643` are different); None otherwise
    pub oriented: Option<Vec<Vec<usize>>>,
}

/// normal form of a cyclic sequence up to rotation only: lexicographically largest rotation
pub fn rotation_normal_form(c: &[usize]) -> Vec<usize> {
    let n = c.len();
    (0..n.max(1)).map(|k| (0..n).map(|t| c[(k + t) % n]).collect::<Vec<usize>>()).max().unwrap_or_default()
}

/// true if the cyclic sequence differs from its reverse (up to rotation)
pub fn is_chiral(c: &[usize]) -> bool {
    let rev: Vec<usize> = c.iter().rev().cloned().collect();
    rotation_normal_form(c) != rotation_normal_form(&rev)
}

/// normal form of a list of consistently oriented components up to simultaneous reversal
pub fn oriented_normal_form(comps: &[Vec<usize>]) -> Vec<Vec<usize>> {
    let mut a: Vec<Vec<usize>> = comps.iter().map(|c| rotation_normal_form(c)).collect();
    a.sort();
    let mut b: Vec<Vec<usize>> = comps.iter().map(|c| rotation_normal_form(&c.iter().rev().cloned().collect::<Vec<_>>())).collect();
    b.sort();
    a.max(b)
}

/// normal form of a cyclic sequence up to rotation and reversal: lexicographically largest
pub fn cyclic_normal_form(c: &[usize]) -> Vec<usize> {
    if c.is_empty() {
        return vec![];
    }
    let n = c.len();
    let mut best: Option<Vec<usize>> = None;
    let rev: Vec<usize> = c.iter().rev().cloned().collect();
    for s in [c, &rev[..]] {
        for k in 0..n {
            let cand: Vec<usize> = (0..n).map(|t| s[(k + t) % n]).collect();
            if best.as_ref().map_or(true, |b| cand > *b) {
                best = Some(cand);
            }
        }
    }
    best.unwrap()
}

/// Exact curvature: sum over all 2-orbits (all three index pairs) of (2 if the orbit has
/// no fixed chamber else 1)/v, minus the number of chambers.
pub fn curvature(s: &MSym) -> Frac {
    assert_eq!(s.dim, 2);
    let mut k = Frac::int(-(s.n as i128));
    for (i, j) in [(0, 1), (0, 2), (1, 2)] {
        let mut seen = vec![false; s.n + 1];
        for d in 1..=s.n {
            if seen[d] {
                continue;
            }
            let orb = s.orbit(&[i, j], d);
            let mut loopless = true;
            for &e in &orb {
                seen[e] = true;
                if s.op[i][e] == e || s.op[j][e] == e {
                    loopless = false;
                }
            }
            let v = s.vv(i, j, d) as i128;
            k = k.add(Frac::new(if loopless { 2 } else { 1 }, v));
        }
    }
    k
}

fn chain_other_end(s: &MSym, d: usize, i: usize, j: usize) -> (usize, usize) {
    // d has a loop at i; walk the (i,j)-chain starting with j; returns (chamber, loop index)
    let mut e = d;
    let mut k = j;
    let mut guard = 0;
    while s.op[k][e] != e {
        e = s.op[k][e];
        k = i + j - k;
        guard += 1;
        assert!(guard <= 2 * s.n + 2);
    }
    (e, k)
}

pub fn orbifold(s: &MSym) -> Orbifold {
    assert_eq!(s.dim, 2);
    // cones
    let mut cones = vec![];
    let mut nr_vertices = 0usize;
    for (i, j) in [(0, 1), (0, 2), (1, 2)] {
        let mut seen = vec![false; s.n + 1];
        for d in 1..=s.n {
            if seen[d] {
                continue;
            }
            nr_vertices += 1;
            let orb = s.orbit(&[i, j], d);
            let mut loopless = true;
            for &e in &orb {
                seen[e] = true;
                if s.op[i][e] == e || s.op[j][e] == e {
                    loopless = false;
                }
            }
            let v = s.vv(i, j, d);
            if loopless && v > 1 {
                cones.push(v);
            }
        }
    }
    cones.sort();
    cones.reverse();

    // boundary components: cycles of boundary edges (d, i) with op_i d = d
    let mut visited: BTreeSet<(usize, usize)> = BTreeSet::new();
    let mut boundaries = vec![];
    // a global orientation (if there is one): sign +1 / -1 per chamber, flipped by every non-fixed operation
    let mut sign: Vec<i8> = vec![0; s.n + 1];
    let mut globally_oriented = s.n >= 1;
    if s.n >= 1 {
        sign[1] = 1;
        let mut queue = std::collections::VecDeque::from([1usize]);
        while let Some(d) = queue.pop_front() {
            for i in 0..=2 {
                let e = s.op[i][d];
                if e != d {
                    if sign[e] == 0 {
                        sign[e] = -sign[d];
                        queue.push_back(e);
                    } else if sign[e] == sign[d] {
                        globally_oriented = false;
                    }
                }
            }
        }
        if sign[1..].iter().any(|&x| x == 0) {
            globally_oriented = false; // not connected
        }
    }
    let mut oriented_components: Vec<Vec<usize>> = vec![];
    for i0 in 0..=2 {
        for d0 in 1..=s.n {
            if s.op[i0][d0] != d0 || visited.contains(&(d0, i0)) {
                continue;
            }
            let mut corners = vec![];
            let (mut d, mut i) = (d0, i0);
            // direction: with the surface on the left with respect to the global orientation when there is
            // one (a positively oriented chamber has its corners 0, 1, 2 counter-clockwise, so its side i runs
            // from corner i+1 to corner i+2 and ends in the corner of the index pair {i, i+1}); arbitrary
            // (as for a positive chamber) otherwise
            let mut j = if globally_oriented && sign[d0] < 0 { (i + 2) % 3 } else { (i + 1) % 3 };
            let mut guard = 0;
            loop {
                visited.insert((d, i));
                let v = s.vv(i, j, d);
                if v > 1 {
                    corners.push(v);
                }
                let (e, l) = chain_other_end(s, d, i, j);
                // arrived at boundary edge (e, l) through the pair {i, j}; leave through the third index
                let third = 3 - i - j;
                d = e;
                i = l;
                j = third;
                guard += 1;
                assert!(guard <= 3 * s.n + 3);
                if (d, i) == (d0, i0) {
                    break;
                }
            }
            boundaries.push(cyclic_normal_form(&corners));
            oriented_components.push(corners);
        }
    }
    boundaries.sort();

    // Euler characteristic of the underlying surface
    let f = s.n as i64;
    let mut e2 = 0i64; // twice the number of edges
    for i in 0..=2 {
        let loops = (1..=s.n).filter(|&d| s.op[i][d] == d).count() as i64;
        e2 += f + loops;
    }
    assert!(e2 % 2 == 0);
    let chi = f + nr_vertices as i64 - e2 / 2;
    let b = boundaries.len() as i64;
    let orientable = s.is_weakly_oriented();
    let x = 2 - b - chi;
    assert!(x >= 0, "negative genus");
    let (handles, crosscaps) = if orientable {
        assert!(x % 2 == 0, "odd genus deficit for orientable surface");
        ((x / 2) as usize, 0)
    } else {
        (0, x as usize)
    };
    let oriented = if orientable && globally_oriented && !oriented_components.is_empty() { Some(oriented_normal_form(&oriented_components)) } else { None };
    Orbifold { cones, boundaries, handles, crosscaps, orientable, oriented }
}

impl Orbifold {
    /// Orbifold Euler characteristic.
    pub fn euler(&self) -> Frac {
        let mut chi = Frac::int(2);
        for &c in &self.cones {
            chi = chi.sub(Frac::new(c as i128 - 1, c as i128));
        }
        for b in &self.boundaries {
            chi = chi.sub(Frac::int(1));
            for &c in b {
                chi = chi.sub(Frac::new(c as i128 - 1, 2 * c as i128));
            }
        }
        chi = chi.sub(Frac::int(2 * self.handles as i128));
        chi = chi.sub(Frac::int(self.crosscaps as i128));
        chi
    }

    /// tear-drop / spindle and their mirrored forms
    pub fn is_bad(&self) -> bool {
        if self.handles > 0 || self.crosscaps > 0 {
            return false;
        }
        if self.boundaries.is_empty() {
            match self.cones.len() {
                1 => true,
                2 => self.cones[0] != self.cones[1],
                _ => false,
            }
        } else if self.boundaries.len() == 1 && self.cones.is_empty() {
            let c = &self.boundaries[0];
            match c.len() {
                1 => true,
                2 => c[0] != c[1],
                _ => false,
            }
        } else {
            false
        }
    }

    /// Key used by the D-symbol generator's list of good spherical orbifolds:
    /// cones descending, `*` if there is a boundary, all corners descending, `x` if non-orientable.
    pub fn generator_key(&self) -> String {
        let mut s = String::new();
        for c in &self.cones {
            s += &c.to_string();
        }
        if !self.boundaries.is_empty() {
            s += "*";
        }
        let mut corners: Vec<usize> = self.boundaries.iter().flatten().cloned().collect();
        corners.sort();
        corners.reverse();
        for c in corners {
            s += &c.to_string();
        }
        if !self.orientable {
            s += "x";
        }
        s
    }
}

/// Parses the library's orbifold symbol format: cone orders (digits, or `(nn)` above 9),
/// then `*` + corner orders per boundary component, then `o`s (handles) or `x`s (cross-caps);
/// the special forms `1`, `1*`, `1x` stand for no features / bare boundary / bare cross-cap.
pub fn parse_symbol(text: &str) -> Option<Orbifold> {
    let chars: Vec<char> = text.chars().collect();
    let mut pos = 0;
    let mut cones = vec![];
    let mut boundaries: Vec<Vec<usize>> = vec![];
    let mut handles = 0;
    let mut crosscaps = 0;
    let mut in_boundary = false;
    let mut tail = false;
    if chars.is_empty() {
        return None;
    }
    // special forms with a leading 1
    if chars[0] == '1' {
        let rest: String = chars[1..].iter().collect();
        if !(rest.is_empty() || rest == "*" || rest == "x") {
            return None;
        }
        pos = 1;
    }
    while pos < chars.len() {
        let c = chars[pos];
        if c == '*' {
            if tail {
                return None;
            }
            boundaries.push(vec![]);
            in_boundary = true;
            pos += 1;
        } else if c == 'o' {
            tail = true;
            handles += 1;
            pos += 1;
        } else if c == 'x' {
            tail = true;
            crosscaps += 1;
            pos += 1;
        } else if c.is_ascii_digit() || c == '(' {
            if tail {
                return None;
            }
            let val;
            if c == '(' {
                let mut q = pos + 1;
                let mut n = 0usize;
                let mut any = false;
                while q < chars.len() && chars[q].is_ascii_digit() {
                    n = n * 10 + chars[q].to_digit(10).unwrap() as usize;
                    q += 1;
                    any = true;
                }
                if !any || q >= chars.len() || chars[q] != ')' {
                    return None;
                }
                val = n;
                pos = q + 1;
            } else {
                val = c.to_digit(10).unwrap() as usize;
                pos += 1;
            }
            if val < 2 {
                return None;
            }
            if in_boundary {
                boundaries.last_mut().unwrap().push(val);
            } else {
                cones.push(val);
            }
        } else {
            return None;
        }
    }
    if handles > 0 && crosscaps > 0 {
        return None;
    }
    cones.sort();
    cones.reverse();
    let oriented = if crosscaps == 0 && !boundaries.is_empty() { Some(oriented_normal_form(&boundaries)) } else { None };
    let mut boundaries: Vec<Vec<usize>> = boundaries.iter().map(|b| cyclic_normal_form(b)).collect();
    boundaries.sort();
    Some(Orbifold { cones, boundaries, handles, crosscaps, orientable: crosscaps == 0, oriented })
}

#[cfg(test)]
mod tests {
    use super::*;

    #[test]
    fn parse_examples() {
        let o = parse_symbol("*332").unwrap();
        assert_eq!(o.euler(), Frac::new(1, 12));
        let o = parse_symbol("2222").unwrap();
        assert_eq!(o.euler(), Frac::int(0));
        let o = parse_symbol("o").unwrap();
        assert_eq!(o.euler(), Frac::int(0));
        let o = parse_symbol("1x").unwrap();
        assert_eq!(o.euler(), Frac::int(1));
        let o = parse_symbol("**").unwrap();
        assert_eq!(o.euler(), Frac::int(0));
        let o = parse_symbol("4*2").unwrap();
        assert_eq!(o.euler(), Frac::int(0));
        let o = parse_symbol("(12)(12)").unwrap();
        assert_eq!(o.euler(), Frac::new(1, 6));
        assert!(parse_symbol("1*").unwrap().euler() == Frac::int(1));
        assert!(parse_symbol("1").unwrap().euler() == Frac::int(2));
    }

    #[test]
    fn cyclic() {
        assert_eq!(cyclic_normal_form(&[2, 3, 4]), cyclic_normal_form(&[4, 3, 2]));
        assert_eq!(cyclic_normal_form(&[2, 3, 4]), cyclic_normal_form(&[3, 4, 2]));
        assert_ne!(cyclic_normal_form(&[2, 3, 4, 5]), cyclic_normal_form(&[2, 4, 3, 5]));
    }
}
