//! 2D orbifold data of a complete connected 2D symbol, from the definitions, plus a
//! parser for Conway-style orbifold symbols and their orbifold Euler characteristic.

use super::dsym::MSym;
use super::frac::Frac;
use std::collections::BTreeSet;

#[derive(Clone, Debug, PartialEq, Eq)]
pub struct Orbifold {
    /// cone orders (> 1), sorted descending
    pub cones: Vec<usize>,
    /// one cyclic corner sequence (orders > 1) per boundary component, each in a
    /// normal form invariant under rotation and reversal; the list is sorted
    pub boundaries: Vec<Vec<usize>>,
    pub handles: usize,
    pub crosscaps: usize,
    pub orientable: bool,
}

/// normal form of a cyclic sequence up to rotation and reversal: lexicographically largest
pub fn cyclic_normal_form(c: &[usize]) -> Vec<usize> {
    if c.is_empty() {
        return vec![];
    }
    let n = c.len();
    let mut best: Option<Vec<usize>> = None;
    let rev: Vec<usize> = c.iter().rev().cloned().collect();
    for s in [c, &rev[..]] {
        for k in 0..n {
            let cand: Vec<usize> = (0..n).map(|t| s[(k + t) % n]).collect();
            if best.as_ref().map_or(true, |b| cand > *b) {
                best = Some(cand);
            }
        }
    }
    best.unwrap()
}

/// Exact curvature: sum over all 2-orbits (all three index pairs) of (2 if the orbit has
/// no fixed chamber else 1)/v, minus the number of chambers.
pub fn curvature(s: &MSym) -> Frac {
    assert_eq!(s.dim, 2);
    let mut k = Frac::int(-(s.n as i128));
    for (i, j) in [(0, 1), (0, 2), (1, 2)] {
        let mut seen = vec![false; s.n + 1];
        for d in 1..=s.n {
            if seen[d] {
                continue;
            }
            let orb = s.orbit(&[i, j], d);
            let mut loopless = true;
            for &e in &orb {
                seen[e] = true;
                if s.op[i][e] == e || s.op[j][e] == e {
                    loopless = false;
                }
            }
            let v = s.vv(i, j, d) as i128;
            k = k.add(Frac::new(if loopless { 2 } else { 1 }, v));
        }
    }
    k
}

fn chain_other_end(s: &MSym, d: usize, i: usize, j: usize) -> (usize, usize) {
    // d has a loop at i; walk the (i,j)-chain starting with j; returns (chamber, loop index)
    let mut e = d;
    let mut k = j;
    let mut guard = 0;
    while s.op[k][e] != e {
        e = s.op[k][e];
        k = i + j - k;
        guard += 1;
        assert!(guard <= 2 * s.n + 2);
    }
    (e, k)
}

pub fn orbifold(s: &MSym) -> Orbifold {
    assert_eq!(s.dim, 2);
    // cones
    let mut cones = vec![];
    let mut nr_vertices = 0usize;
    for (i, j) in [(0, 1), (0, 2), (1, 2)] {
        let mut seen = vec![false; s.n + 1];
        for d in 1..=s.n {
            if seen[d] {
                continue;
            }
            nr_vertices += 1;
            let orb = s.orbit(&[i, j], d);
            let mut loopless = true;
            for &e in &orb {
                seen[e] = true;
                if s.op[i][e] == e || s.op[j][e] == e {
                    loopless = false;
                }
            }
            let v = s.vv(i, j, d);
            if loopless && v > 1 {
                cones.push(v);
            }
        }
    }
    cones.sort();
    cones.reverse();

    // boundary components: cycles of boundary edges (d, i) with op_i d = d
    let mut visited: BTreeSet<(usize, usize)> = BTreeSet::new();
    let mut boundaries = vec![];
    for i0 in 0..=2 {
        for d0 in 1..=s.n {
            if s.op[i0][d0] != d0 || visited.contains(&(d0, i0)) {
                continue;
            }
            let mut corners = vec![];
            let (mut d, mut i) = (d0, i0);
            // direction: first turn around the vertex shared with index (i+1)%3
            let mut j = (i + 1) % 3;
            let mut guard = 0;
            loop {
                visited.insert((d, i));
                let v = s.vv(i, j, d);
                if v > 1 {
                    corners.push(v);
                }
                let (e, l) = chain_other_end(s, d, i, j);
                // arrived at boundary edge (e, l) through the pair {i, j}; leave through the third index
                let third = 3 - i - j;
                d = e;
                i = l;
                j = third;
                guard += 1;
                assert!(guard <= 3 * s.n + 3);
                if (d, i) == (d0, i0) {
                    break;
                }
            }
            boundaries.push(cyclic_normal_form(&corners));
        }
    }
    boundaries.sort();

    // Euler characteristic of the underlying surface
    let f = s.n as i64;
    let mut e2 = 0i64; // twice the number of edges
    for i in 0..=2 {
        let loops = (1..=s.n).filter(|&d| s.op[i][d] == d).count() as i64;
        e2 += f + loops;
    }
    assert!(e2 % 2 == 0);
    let chi = f + nr_vertices as i64 - e2 / 2;
    let b = boundaries.len() as i64;
    let orientable = s.is_weakly_oriented();
    let x = 2 - b - chi;
    assert!(x >= 0, "negative genus");
    let (handles, crosscaps) = if orientable {
        assert!(x % 2 == 0, "odd genus deficit for orientable surface");
        ((x / 2) as usize, 0)
    } else {
        (0, x as usize)
    };
    Orbifold { cones, boundaries, handles, crosscaps, orientable }
}

impl Orbifold {
    /// Orbifold Euler characteristic.
    pub fn euler(&self) -> Frac {
        let mut chi = Frac::int(2);
        for &c in &self.cones {
            chi = chi.sub(Frac::new(c as i128 - 1, c as i128));
        }
        for b in &self.boundaries {
            chi = chi.sub(Frac::int(1));
            for &c in b {
                chi = chi.sub(Frac::new(c as i128 - 1, 2 * c as i128));
            }
        }
        chi = chi.sub(Frac::int(2 * self.handles as i128));
        chi = chi.sub(Frac::int(self.crosscaps as i128));
        chi
    }

    /// tear-drop / spindle and their mirrored forms
    pub fn is_bad(&self) -> bool {
        if self.handles > 0 || self.crosscaps > 0 {
            return false;
        }
        if self.boundaries.is_empty() {
            match self.cones.len() {
                1 => true,
                2 => self.cones[0] != self.cones[1],
                _ => false,
            }
        } else if self.boundaries.len() == 1 && self.cones.is_empty() {
            let c = &self.boundaries[0];
            match c.len() {
                1 => true,
                2 => c[0] != c[1],
                _ => false,
            }
        } else {
            false
        }
    }

    /// Key used by the D-symbol generator's list of good spherical orbifolds:
    /// cones descending, `*` if there is a boundary, all corners descending, `x` if non-orientable.
    pub fn generator_key(&self) -> String {
        let mut s = String::new();
        for c in &self.cones {
            s += &c.to_string();
        }
        if !self.boundaries.is_empty() {
            s += "*";
        }
        let mut corners: Vec<usize> = self.boundaries.iter().flatten().cloned().collect();
        corners.sort();
        corners.reverse();
        for c in corners {
            s += &c.to_string();
        }
        if !self.orientable {
            s += "x";
        }
        s
    }
}

/// Parses the library's orbifold symbol format: cone orders (digits, or `(nn)` above 9),
/// then `*` + corner orders per boundary component, then `o`s (handles) or `x`s (cross-caps);
/// the special forms `1`, `1*`, `1x` stand for no features / bare boundary / bare cross-cap.
pub fn parse_symbol(text: &str) -> Option<Orbifold> {
    let chars: Vec<char> = text.chars().collect();
    let mut pos = 0;
    let mut cones = vec![];
    let mut boundaries: Vec<Vec<usize>> = vec![];
    let mut handles = 0;
    let mut crosscaps = 0;
    let mut in_boundary = false;
    let mut tail = false;
    if chars.is_empty() {
        return None;
    }
    // special forms with a leading 1
    if chars[0] == '1' {
        let rest: String = chars[1..].iter().collect();
        if !(rest.is_empty() || rest == "*" || rest == "x") {
            return None;
        }
        pos = 1;
    }
    while pos < chars.len() {
        let c = chars[pos];
        if c == '*' {
            if tail {
                return None;
            }
            boundaries.push(vec![]);
            in_boundary = true;
            pos += 1;
        } else if c == 'o' {
            tail = true;
            handles += 1;
            pos += 1;
        } else if c == 'x' {
            tail = true;
            crosscaps += 1;
            pos += 1;
        } else if c.is_ascii_digit() || c == '(' {
            if tail {
                return None;
            }
            let val;
            if c == '(' {
                let mut q = pos + 1;
                let mut n = 0usize;
                let mut any = false;
                while q < chars.len() && chars[q].is_ascii_digit() {
                    n = n * 10 + chars[q].to_digit(10).unwrap() as usize;
                    q += 1;
                    any = true;
                }
                if !any || q >= chars.len() || chars[q] != ')' {
                    return None;
                }
                val = n;
                pos = q + 1;
            } else {
                val = c.to_digit(10).unwrap() as usize;
                pos += 1;
            }
            if val < 2 {
                return None;
            }
            if in_boundary {
                boundaries.last_mut().unwrap().push(val);
            } else {
                cones.push(val);
            }
        } else {
            return None;
        }
    }
    if handles > 0 && crosscaps > 0 {
        return None;
    }
    cones.sort();
    cones.reverse();
    let mut boundaries: Vec<Vec<usize>> = boundaries.iter().map(|b| cyclic_normal_form(b)).collect();
    boundaries.sort();
    Some(Orbifold { cones, boundaries, handles, crosscaps, orientable: crosscaps == 0 })
}

#[cfg(test)]
mod tests {
    use super::*;

    #[test]
    fn parse_examples() {
        let o = parse_symbol("*332").unwrap();
        assert_eq!(o.euler(), Frac::new(1, 12));
        let o = parse_symbol("2222").unwrap();
        assert_eq!(o.euler(), Frac::int(0));
        let o = parse_symbol("o").unwrap();
        assert_eq!(o.euler(), Frac::int(0));
        let o = parse_symbol("1x").unwrap();
        assert_eq!(o.euler(), Frac::int(1));
        let o = parse_symbol("**").unwrap();
        assert_eq!(o.euler(), Frac::int(0));
        let o = parse_symbol("4*2").unwrap();
        assert_eq!(o.euler(), Frac::int(0));
        let o = parse_symbol("(12)(12)").unwrap();
        assert_eq!(o.euler(), Frac::new(1, 6));
        assert!(parse_symbol("1*").unwrap().euler() == Frac::int(1));
        assert!(parse_symbol("1").unwrap().euler() == Frac::int(2));
    }

    #[test]
    fn cyclic() {
        assert_eq!(cyclic_normal_form(&[2, 3, 4]), cyclic_normal_form(&[4, 3, 2]));
        assert_eq!(cyclic_normal_form(&[2, 3, 4]), cyclic_normal_form(&[3, 4, 2]));
        assert_ne!(cyclic_normal_form(&[2, 3, 4, 5]), cyclic_normal_form(&[2, 4, 3, 5]));
    }
}
