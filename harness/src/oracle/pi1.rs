//! Textbook presentation of the orbifold fundamental group of a D-symbol: one generator per
//! chamber facet (d,i); crossing a facet and crossing back is trivial; facets of a spanning
//! tree of the chamber graph are trivial; for every 2-orbit (all index pairs) the word read
//! around the orbit, raised to the branching number, is trivial.
//!
//! The two cheap Tietze eliminations (tree facets, facet pairing) are done by construction:
//! `letter[d][i]` is 0 for tree facets and +k / -k on the two sides of facet pair k
//! (+k on both sides of a mirror, with relator k k).

use super::dsym::MSym;
use super::groups::{reduce, Pres, Word};
use std::collections::VecDeque;

pub struct Pi1 {
    pub pres: Pres,
    /// letter[d][i]: image of the facet generator (d,i) in the reduced presentation (0 = trivial)
    pub letter: Vec<Vec<i64>>,
    /// one entry per relator coming from a 2-orbit: (i, j, representative chamber, v)
    pub orbit_relators: Vec<(usize, usize, usize, usize)>,
}

pub fn textbook_pi1(s: &MSym) -> Pi1 {
    textbook_pi1_with_trivial_facets(s, None)
}

/// Same construction, but with the given facets (instead of a BFS spanning tree) declared
/// trivial. If the set contains a spanning tree and all further members are consequences of
/// the relations, this presents the same group; `inner_edges` is tested through it.
pub fn textbook_pi1_with_trivial_facets(s: &MSym, trivial: Option<&[(usize, usize)]>) -> Pi1 {
    let (n, dim) = (s.n, s.dim);
    let mut tree = vec![vec![false; dim + 1]; n + 1];
    match trivial {
        Some(list) => {
            for &(d, i) in list {
                tree[d][i] = true;
                tree[s.op[i][d]][i] = true;
            }
        }
        None => {
            // spanning tree by BFS from chamber 1 over non-loop edges
            let mut seen = vec![false; n + 1];
            seen[1] = true;
            let mut q = VecDeque::from([1usize]);
            while let Some(d) = q.pop_front() {
                for i in 0..=dim {
                    let e = s.op[i][d];
                    if !seen[e] {
                        seen[e] = true;
                        tree[d][i] = true;
                        tree[e][i] = true;
                        q.push_back(e);
                    }
                }
            }
            assert!((1..=n).all(|d| seen[d]), "textbook_pi1 needs a connected symbol");
        }
    }
    let mut letter = vec![vec![0i64; dim + 1]; n + 1];
    let mut next = 0i64;
    let mut rels: Vec<Word> = vec![];
    let mut assigned = vec![vec![false; dim + 1]; n + 1];
    for d in 1..=n {
        for i in 0..=dim {
            if assigned[d][i] {
                continue;
            }
            let e = s.op[i][d];
            assigned[d][i] = true;
            assigned[e][i] = true;
            if tree[d][i] {
                continue; // trivial on both sides
            }
            next += 1;
            if e == d {
                letter[d][i] = next;
                rels.push(vec![next, next]);
            } else {
                letter[d][i] = next;
                letter[e][i] = -next;
            }
        }
    }
    let mut orbit_relators = vec![];
    for i in 0..=dim {
        for j in (i + 1)..=dim {
            let mut done = vec![false; n + 1];
            for d in 1..=n {
                if done[d] {
                    continue;
                }
                for e in s.orbit(&[i, j], d) {
                    done[e] = true;
                }
                let mut w: Word = vec![];
                let mut e = d;
                loop {
                    w.push(letter[e][i]);
                    e = s.op[i][e];
                    w.push(letter[e][j]);
                    e = s.op[j][e];
                    if e == d {
                        break;
                    }
                }
                let v = s.vv(i, j, d);
                let mut rel: Word = vec![];
                for _ in 0..v {
                    rel.extend_from_slice(&w);
                }
                let rel = reduce(&rel);
                if !rel.is_empty() {
                    rels.push(rel);
                }
                orbit_relators.push((i, j, d, v));
            }
        }
    }
    Pi1 { pres: Pres { ngens: next as usize, rels }, letter, orbit_relators }
}

/// The unreduced textbook presentation: one generator per chamber facet, tree and pairing
/// relators spelled out (a hostile input for coset enumeration: many redundant generators,
/// relators of length 1 and 2).
pub fn textbook_pi1_redundant(s: &MSym) -> Pres {
    let (n, dim) = (s.n, s.dim);
    let g = |d: usize, i: usize| ((d - 1) * (dim + 1) + i + 1) as i64;
    let mut rels: Vec<Word> = vec![];
    for d in 1..=n {
        for i in 0..=dim {
            rels.push(vec![g(d, i), g(s.op[i][d], i)]);
        }
    }
    let mut seen = vec![false; n + 1];
    seen[1] = true;
    let mut q = VecDeque::from([1usize]);
    while let Some(d) = q.pop_front() {
        for i in 0..=dim {
            let e = s.op[i][d];
            if !seen[e] {
                seen[e] = true;
                rels.push(vec![g(d, i)]);
                q.push_back(e);
            }
        }
    }
    for i in 0..=dim {
        for j in (i + 1)..=dim {
            let mut done = vec![false; n + 1];
            for d in 1..=n {
                if done[d] {
                    continue;
                }
                for e in s.orbit(&[i, j], d) {
                    done[e] = true;
                }
                let mut w: Word = vec![];
                let mut e = d;
                loop {
                    w.push(g(e, i));
                    e = s.op[i][e];
                    w.push(g(e, j));
                    e = s.op[j][e];
                    if e == d {
                        break;
                    }
                }
                let v = s.vv(i, j, d);
                let mut rel: Word = vec![];
                for _ in 0..v {
                    rel.extend_from_slice(&w);
                }
                rels.push(rel);
            }
        }
    }
    Pres { ngens: n * (dim + 1), rels }
}
