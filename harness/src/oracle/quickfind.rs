//! Partition as a label array with relabelling on union (the definition, no trees).

#[derive(Clone, Debug)]
pub struct QuickFind {
    pub label: Vec<usize>,
}

impl QuickFind {
    pub fn new(n: usize) -> Self {
        QuickFind { label: (0..n).collect() }
    }
    pub fn same(&self, a: usize, b: usize) -> bool {
        self.label[a] == self.label[b]
    }
    pub fn union(&mut self, a: usize, b: usize) {
        let (la, lb) = (self.label[a], self.label[b]);
        if la != lb {
            for x in self.label.iter_mut() {
                if *x == lb {
                    *x = la;
                }
            }
        }
    }
    pub fn class_of(&self, a: usize) -> Vec<usize> {
        (0..self.label.len()).filter(|&x| self.label[x] == self.label[a]).collect()
    }
}
