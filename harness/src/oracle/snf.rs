//! Invariant factors of integer matrices with BigInt arithmetic: by elimination, and
//! (independently) by gcds of minors for small matrices.

use num_bigint::BigInt;
use num_traits::{One, Signed, Zero};

fn gcd(a: &BigInt, b: &BigInt) -> BigInt {
    let (mut a, mut b) = (a.abs(), b.abs());
    while !b.is_zero() {
        let t = &a % &b;
        a = b;
        b = t;
    }
    a
}

/// Non-zero invariant factors d1 | d2 | ... (all > 0) of the matrix; rank = their number.
pub fn invariant_factors_elim(rows: &[Vec<BigInt>], ncols: usize) -> Vec<BigInt> {
    let mut a: Vec<Vec<BigInt>> = rows.iter().map(|r| r.clone()).collect();
    let nrows = a.len();
    let mut result = vec![];
    let mut t = 0;
    while t < nrows.min(ncols) {
        // find the non-zero entry of least absolute value in the remaining block
        let mut best: Option<(usize, usize)> = None;
        for i in t..nrows {
            for j in t..ncols {
                if !a[i][j].is_zero() && best.map_or(true, |(bi, bj)| a[i][j].abs() < a[bi][bj].abs()) {
                    best = Some((i, j));
                }
            }
        }
        let (pi, pj) = match best {
            Some(b) => b,
            None => break,
        };
        a.swap(t, pi);
        for row in a.iter_mut() {
            row.swap(t, pj);
        }
        // reduce row and column t
        let mut dirty = false;
        for i in (t + 1)..nrows {
            if !a[i][t].is_zero() {
                let q = &a[i][t] / &a[t][t];
                for j in t..ncols {
                    let s = &q * &a[t][j];
                    a[i][j] -= s;
                }
                if !a[i][t].is_zero() {
                    dirty = true;
                }
            }
        }
        for j in (t + 1)..ncols {
            if !a[t][j].is_zero() {
                let q = &a[t][j] / &a[t][t];
                for i in t..nrows {
                    let s = &q * &a[i][t];
                    a[i][j] -= s;
                }
                if !a[t][j].is_zero() {
                    dirty = true;
                }
            }
        }
        if dirty {
            continue; // a smaller pivot now exists
        }
        // pivot must divide every remaining entry
        let mut bad = None;
        'o: for i in (t + 1)..nrows {
            for j in (t + 1)..ncols {
                if !(&a[i][j] % &a[t][t]).is_zero() {
                    bad = Some(i);
                    break 'o;
                }
            }
        }
        if let Some(i) = bad {
            for j in t..ncols {
                let s = a[i][j].clone();
                a[t][j] += s;
            }
            continue;
        }
        result.push(a[t][t].abs());
        t += 1;
    }
    result
}

/// Abelian invariants of Z^n / <rows>: invariant factors != 1 ascending with one 0 per free generator,
/// zeros first (matching "ascending list").
pub fn abelian_invariants(rows: &[Vec<BigInt>], n: usize) -> Vec<BigInt> {
    let f = invariant_factors_elim(rows, n);
    let mut r: Vec<BigInt> = vec![BigInt::zero(); n - f.len()];
    r.extend(f.into_iter().filter(|x| !x.is_one()));
    r.sort();
    r
}

fn det(m: &[Vec<BigInt>]) -> BigInt {
    let n = m.len();
    if n == 0 {
        return BigInt::one();
    }
    if n == 1 {
        return m[0][0].clone();
    }
    let mut s = BigInt::zero();
    for j in 0..n {
        if m[0][j].is_zero() {
            continue;
        }
        let minor: Vec<Vec<BigInt>> = (1..n).map(|i| (0..n).filter(|&c| c != j).map(|c| m[i][c].clone()).collect()).collect();
        let d = det(&minor) * &m[0][j];
        if j % 2 == 0 {
            s += d;
        } else {
            s -= d;
        }
    }
    s
}

fn subsets(n: usize, k: usize) -> Vec<Vec<usize>> {
    fn rec(start: usize, n: usize, k: usize, cur: &mut Vec<usize>, out: &mut Vec<Vec<usize>>) {
        if cur.len() == k {
            out.push(cur.clone());
            return;
        }
        for x in start..n {
            cur.push(x);
            rec(x + 1, n, k, cur, out);
            cur.pop();
        }
    }
    let mut out = vec![];
    rec(0, n, k, &mut vec![], &mut out);
    out
}

/// Invariant factors through determinantal divisors: d_k = D_k / D_{k-1}, D_k = gcd of k x k minors.
pub fn invariant_factors_minors(rows: &[Vec<BigInt>], ncols: usize) -> Vec<BigInt> {
    let nrows = rows.len();
    let mut result = vec![];
    let mut prev = BigInt::one();
    for k in 1..=nrows.min(ncols) {
        let mut g = BigInt::zero();
        for rs in subsets(nrows, k) {
            for cs in subsets(ncols, k) {
                let m: Vec<Vec<BigInt>> = rs.iter().map(|&r| cs.iter().map(|&c| rows[r][c].clone()).collect()).collect();
                g = gcd(&g, &det(&m));
            }
        }
        if g.is_zero() {
            break;
        }
        result.push(&g / &prev);
        prev = g;
    }
    result
}

pub fn abelian_invariants_minors(rows: &[Vec<BigInt>], n: usize) -> Vec<BigInt> {
    let f = invariant_factors_minors(rows, n);
    let mut r: Vec<BigInt> = vec![BigInt::zero(); n - f.len()];
    r.extend(f.into_iter().filter(|x| !x.is_one()));
    r.sort();
    r
}

/// exponent-sum vector of a word
pub fn exponent_vector(n: usize, w: &[i64]) -> Vec<BigInt> {
    let mut v = vec![BigInt::zero(); n];
    for &g in w {
        if g > 0 {
            v[g as usize - 1] += 1;
        } else if g < 0 {
            v[(-g) as usize - 1] -= 1;
        }
    }
    v
}

pub fn abelian_invariants_of_presentation(n: usize, rels: &[Vec<i64>]) -> Vec<BigInt> {
    let rows: Vec<Vec<BigInt>> = rels.iter().map(|w| exponent_vector(n, w)).collect();
    abelian_invariants(&rows, n)
}

#[cfg(test)]
mod tests {
    use super::*;
    fn m(rows: &[&[i64]]) -> Vec<Vec<BigInt>> {
        rows.iter().map(|r| r.iter().map(|&x| BigInt::from(x)).collect()).collect()
    }
    fn b(xs: &[i64]) -> Vec<BigInt> {
        xs.iter().map(|&x| BigInt::from(x)).collect()
    }
    #[test]
    fn examples() {
        let a = m(&[&[4, 0, 0], &[0, 6, 0], &[0, 0, 10]]);
        assert_eq!(invariant_factors_elim(&a, 3), b(&[2, 2, 60]));
        assert_eq!(invariant_factors_minors(&a, 3), b(&[2, 2, 60]));
        let a = m(&[&[2, 4, 4], &[-6, 6, 12], &[10, -4, -16]]);
        assert_eq!(invariant_factors_elim(&a, 3), invariant_factors_minors(&a, 3));
        assert_eq!(abelian_invariants(&m(&[&[2, 0]]), 2), b(&[0, 2]));
        assert_eq!(abelian_invariants(&m(&[&[1, 0], &[0, 1]]), 2), b(&[]));
    }
}
