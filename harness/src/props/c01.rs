//! C01 — D-symbol text form round-trips and parsing never panics.

use crate::bridge::*;
use crate::gen;
use crate::monitor::{digest, digest_str, observe, par_items, par_range, Cfg, Ctx, Report};
use crate::oracle::dsym::MSym;
use crate::rng::Rng;
use rust_dsymbols::dsets::DSet;
use rust_dsymbols::dsyms::{PartialDSym, SimpleDSym};
use rust_dsymbols::generators::dset_generators::DSets;
use rust_dsymbols::generators::dsym_generators::{DSyms, Geometries};
use serde_json::{json, Value};
use std::io::{BufRead, BufReader, Write};
use std::process::{Child, ChildStdin, ChildStdout, Command, Stdio};

/// Outcome of `from_str` on one string, as observed.
#[derive(Clone, Debug, PartialEq, Eq)]
pub enum Outcome {
    Ok { text: String, valid: bool, why_invalid: String, reparse_equal: bool },
    Err(String),
    Panic { msg: String, loc: String },
    Abort(String),
}

impl Outcome {
    pub fn class(&self) -> String {
        match self {
            Outcome::Ok { .. } => "ok".into(),
            Outcome::Err(e) => format!("err:{}", err_kind(e)),
            Outcome::Panic { loc, .. } => format!("panic@{}", loc),
            Outcome::Abort(s) => format!("abort:{}", s),
        }
    }
    /// what a user can observe (used for the checked/release divergence lane)
    pub fn observable(&self) -> String {
        match self {
            Outcome::Ok { text, .. } => format!("ok:{}", text),
            Outcome::Err(e) => format!("err:{}", err_kind(e)),
            Outcome::Panic { .. } => "panic".into(),
            Outcome::Abort(_) => "abort".into(),
        }
    }
}

fn err_kind(e: &str) -> String {
    // nom errors: "Parsing Error: Error { input: \"...\", code: Digit }" -> "nom:Digit"
    if let Some(p) = e.rfind("code: ") {
        let rest = &e[p + 6..];
        let code: String = rest.chars().take_while(|c| c.is_ascii_alphanumeric()).collect();
        return format!("nom:{}", code);
    }
    if e.starts_with("Parsing") {
        return "nom:other".into();
    }
    e.to_string()
}

/// Parses in-process under catch_unwind and judges an Ok result structurally.
pub fn parse_observed(s: &str) -> Outcome {
    let r = observe(|| s.parse::<PartialDSym>());
    match r {
        Err(p) => Outcome::Panic { msg: p.msg.clone(), loc: p.short_loc() },
        Ok(Err(e)) => Outcome::Err(e),
        Ok(Ok(sym)) => {
            let r2 = observe(|| {
                let m = from_dsym(&sym);
                let text = sym.to_string();
                let mut why = String::new();
                if m.n < 1 || m.dim < 1 {
                    why = "size or dimension below 1".into();
                } else if !m.is_complete_set() {
                    why = "some operation undefined".into();
                } else if !m.ops_are_involutions() {
                    why = "operations are not involutions on 1..size".into();
                } else {
                    // degrees are multiples of orbit lengths: m = r*v with v read back as an integer,
                    // and v constant on the orbit
                    for i in 0..m.dim {
                        for d in 1..=m.n {
                            if m.v[i][m.op[i][d]] != m.v[i][d] || m.v[i][m.op[i + 1][d]] != m.v[i][d] {
                                why = format!("degree not constant on the ({},{})-orbit of {}", i, i + 1, d);
                            }
                        }
                    }
                }
                let reparse_equal = match text.parse::<PartialDSym>() {
                    Ok(again) => again == sym,
                    Err(_) => false,
                };
                (text, why, reparse_equal)
            });
            match r2 {
                Ok((text, why, reparse_equal)) => Outcome::Ok { text, valid: why.is_empty(), why_invalid: why, reparse_equal },
                Err(p) => Outcome::Panic { msg: p.msg.clone(), loc: p.short_loc() },
            }
        }
    }
}

fn outcome_to_json(o: &Outcome) -> Value {
    match o {
        Outcome::Ok { text, valid, why_invalid, reparse_equal } => json!({"o": "ok", "text": text, "valid": valid, "why": why_invalid, "reparse_equal": reparse_equal}),
        Outcome::Err(e) => json!({"o": "err", "msg": e}),
        Outcome::Panic { msg, loc } => json!({"o": "panic", "msg": msg, "loc": loc}),
        Outcome::Abort(s) => json!({"o": "abort", "how": s}),
    }
}

fn outcome_from_json(v: &Value) -> Option<Outcome> {
    Some(match v.get("o")?.as_str()? {
        "ok" => Outcome::Ok {
            text: v.get("text")?.as_str()?.to_string(),
            valid: v.get("valid")?.as_bool()?,
            why_invalid: v.get("why")?.as_str()?.to_string(),
            reparse_equal: v.get("reparse_equal")?.as_bool()?,
        },
        "err" => Outcome::Err(v.get("msg")?.as_str()?.to_string()),
        "panic" => Outcome::Panic { msg: v.get("msg")?.as_str()?.to_string(), loc: v.get("loc")?.as_str()?.to_string() },
        "abort" => Outcome::Abort(v.get("how")?.as_str()?.to_string()),
        _ => return None,
    })
}

/// Child mode: reads one JSON string per line, answers one JSON outcome per line.
/// Runs under an address-space limit so that absurd allocations fail fast (the resulting
/// abort is observed by the parent as the death of this process).
pub fn parse_child_main() {
    unsafe {
        let lim = libc::rlimit { rlim_cur: 3 << 30, rlim_max: 3 << 30 };
        libc::setrlimit(libc::RLIMIT_AS, &lim);
    }
    let stdin = std::io::stdin();
    let mut out = std::io::stdout();
    for line in stdin.lock().lines() {
        let line = match line {
            Ok(l) => l,
            Err(_) => break,
        };
        let s: String = match serde_json::from_str(&line) {
            Ok(s) => s,
            Err(_) => continue,
        };
        let o = parse_observed(&s);
        let _ = writeln!(out, "{}", outcome_to_json(&o));
        let _ = out.flush();
    }
}

pub struct ParseChild {
    child: Child,
    stdin: ChildStdin,
    stdout: BufReader<ChildStdout>,
}

impl ParseChild {
    pub fn spawn() -> Option<ParseChild> {
        let exe = std::env::current_exe().ok()?;
        let mut child = Command::new(exe).arg("--parse-child").stdin(Stdio::piped()).stdout(Stdio::piped()).stderr(Stdio::null()).spawn().ok()?;
        let stdin = child.stdin.take()?;
        let stdout = BufReader::new(child.stdout.take()?);
        Some(ParseChild { child, stdin, stdout })
    }
    /// None = the child died while handling this string
    pub fn ask(&mut self, s: &str) -> Option<Outcome> {
        let line = serde_json::to_string(s).ok()?;
        if writeln!(self.stdin, "{}", line).is_err() || self.stdin.flush().is_err() {
            return None;
        }
        let mut answer = String::new();
        match self.stdout.read_line(&mut answer) {
            Ok(0) | Err(_) => None,
            Ok(_) => serde_json::from_str::<Value>(&answer).ok().and_then(|v| outcome_from_json(&v)),
        }
    }
    pub fn death_reason(&mut self) -> String {
        match self.child.wait() {
            Ok(st) => {
                use std::os::unix::process::ExitStatusExt;
                if let Some(sig) = st.signal() {
                    format!("killed by signal {}", sig)
                } else {
                    format!("exit status {:?}", st.code())
                }
            }
            Err(e) => format!("wait failed: {}", e),
        }
    }
}

impl Drop for ParseChild {
    fn drop(&mut self) {
        let _ = self.child.kill();
        let _ = self.child.wait();
    }
}

fn needs_child(s: &str) -> bool {
    // any digit run of 7+ characters could be a size field that makes the parser allocate without bound
    let mut run = 0;
    for c in s.chars() {
        if c.is_ascii_digit() {
            run += 1;
            if run >= 7 {
                return true;
            }
        } else {
            run = 0;
        }
    }
    false
}

/// Judges one string (totality clause).
pub fn judge_string(ctx: &mut Ctx, child: &mut Option<ParseChild>, s: &str, origin: &str) -> Outcome {
    let input = || json!({"string": s, "origin": origin});
    ctx.eval();
    let o = if needs_child(s) {
        ctx.count("parsed_in_child_process");
        if child.is_none() {
            *child = ParseChild::spawn();
        }
        match child.as_mut() {
            None => {
                ctx.inconclusive.push("could not spawn the parse child process".into());
                return Outcome::Err("harness".into());
            }
            Some(c) => match c.ask(s) {
                Some(o) => o,
                None => {
                    let why = c.death_reason();
                    *child = None;
                    Outcome::Abort(why)
                }
            },
        }
    } else {
        // "always terminates": a string of this length is parsed in microseconds; 30 s of CPU time is the budget
        let _in_flight = if s.len() <= 100_000 { Some(crate::monitor::in_flight("PartialDSym::from_str", 30, || input().to_string())) } else { None };
        parse_observed(s)
    };
    ctx.count(&format!("outcome.{}", o.class()));
    ctx.distinct("outcome_classes", digest_str(&o.class()));
    match &o {
        Outcome::Ok { valid, why_invalid, reparse_equal, text } => {
            if !valid {
                ctx.violation("accepted-symbol-is-not-valid", "PartialDSym::from_str", input(), json!({"printed": text, "problem": why_invalid}), "an accepted symbol has involutive operations on 1..size and degrees that are multiples of the orbit lengths");
            } else if !reparse_equal {
                ctx.violation("print-of-parsed-does-not-reparse-equal", "PartialDSym::from_str + Display", input(), json!({"printed": text}), "printing a parsed symbol gives text that parses to that same symbol");
            }
        }
        Outcome::Err(_) => {}
        Outcome::Panic { msg, loc } => {
            ctx.violation(&format!("panic@{}", loc), "PartialDSym::from_str", input(), json!({"panic": msg, "at": loc}), "an error value, never a panic");
        }
        Outcome::Abort(how) => {
            ctx.violation("process-abort", "PartialDSym::from_str", input(), json!({"process": how}), "parsing terminates with a symbol or an error value (a short input must not exhaust memory)");
        }
    }
    o
}

/// Round trip of a valid complete model symbol through every printable symbol type.
pub fn judge_round_trip(ctx: &mut Ctx, m: &MSym) {
    let input = || json!({"symbol": m.to_text()});
    ctx.eval();
    let r = observe(|| {
        let p1 = to_partial_dsym(m);
        let s1 = SimpleDSym::from(p1.clone());
        (p1.to_string(), s1.to_string(), p1)
    });
    let (t1, t2, p1) = match ctx.no_panic("Display for PartialDSym / SimpleDSym", input, r) {
        Some(x) => x,
        None => return,
    };
    if t1 != t2 {
        ctx.violation("representations-print-differently", "Display", input(), json!({"PartialDSym": t1, "SimpleDSym": t2}), "same symbol, same text");
    }
    let r = observe(|| t1.parse::<PartialDSym>());
    match ctx.no_panic("PartialDSym::from_str", input, r) {
        None => {}
        Some(Err(e)) => ctx.violation("printed-symbol-rejected", "Display + from_str", input(), json!({"printed": t1, "error": e}), "printing any complete symbol and parsing it back yields an equal symbol"),
        Some(Ok(p2)) => {
            let back = from_dsym(&p2);
            if back != *m {
                ctx.violation("round-trip-changes-symbol", "Display + from_str", input(), json!({"printed": t1, "parsed_back": back.to_text()}), "structurally equal symbol (size, dim, every op, every v)");
            } else if p2 != p1 {
                ctx.violation("round-trip-not-eq", "Display + from_str", input(), json!({"printed": t1}), "equal under the type's own Eq");
            }
            // second generation
            let t3 = p2.to_string();
            match observe(|| t3.parse::<PartialDSym>()) {
                Ok(Ok(p3)) => {
                    if p3 != p2 {
                        ctx.violation("print-of-parsed-does-not-reparse-equal", "Display + from_str", input(), json!({"printed": t3}), "parse(print(P)) == P");
                    }
                }
                Ok(Err(e)) => ctx.violation("print-of-parsed-rejected", "Display + from_str", input(), json!({"printed": t3, "error": e}), "parse(print(P)) == P"),
                Err(p) => ctx.violation(&format!("panic@{}", p.short_loc()), "PartialDSym::from_str", input(), p.to_json(), "no panic"),
            }
        }
    }
    // the model's own text (different spacing conventions are the same language)
    let own = m.to_text();
    match observe(|| own.parse::<PartialDSym>()) {
        Ok(Ok(p)) => {
            if from_dsym(&p) != *m {
                ctx.violation("model-text-parses-to-different-symbol", "PartialDSym::from_str", input(), json!({"parsed": from_dsym(&p).to_text()}), "text defines the symbol");
            }
        }
        Ok(Err(e)) => ctx.violation("valid-text-rejected", "PartialDSym::from_str", input(), json!({"error": e}), "valid text is accepted"),
        Err(p) => ctx.violation(&format!("panic@{}", p.short_loc()), "PartialDSym::from_str", input(), p.to_json(), "no panic"),
    }
    // plain D-sets print too (their text is not a symbol text; only absence of panics is judged)
    let r = observe(|| {
        let a = to_partial_dset(m).to_string();
        let b = to_simple_dset(m).to_string();
        let _ = a.parse::<PartialDSym>();
        (a, b)
    });
    if let Some((a, b)) = ctx.no_panic("Display for PartialDSet / SimpleDSet", input, r) {
        if a != b {
            ctx.violation("representations-print-differently", "Display for D-sets", input(), json!({"PartialDSet": a, "SimpleDSet": b}), "same set, same text");
        }
    }
    if m.n >= 2 && (0..=m.dim).any(|i| (1..=m.n).any(|d| m.op[i][d] != d)) {
        ctx.nontrivial(digest(m));
    }
    if m.n >= 100 {
        ctx.count("round_trip_100plus_chambers");
    }
    ctx.count("round_trips");
}

// ---------------------------------------------------------------------------
// string workloads

fn tokens(s: &str) -> Vec<String> {
    // numbers, single separator characters, whitespace runs
    let mut out = vec![];
    let mut cur = String::new();
    let mut kind = 0; // 1 digit, 2 space
    for c in s.chars() {
        let k = if c.is_ascii_digit() { 1 } else if c.is_whitespace() { 2 } else { 3 };
        if k == 3 || k != kind {
            if !cur.is_empty() {
                out.push(std::mem::take(&mut cur));
            }
        }
        cur.push(c);
        kind = k;
        if k == 3 {
            out.push(std::mem::take(&mut cur));
            kind = 0;
        }
    }
    if !cur.is_empty() {
        out.push(cur);
    }
    out
}

fn is_number(t: &str) -> bool {
    !t.is_empty() && t.chars().all(|c| c.is_ascii_digit())
}

const HOSTILE_NUMBERS: &[&str] = &[
    "0", "1", "2", "3", "7", "00", "007", "255", "256", "65536", "999999", "1000000", "2147483647", "2147483648", "4294967296", "100000000000",
    "9223372036854775807", "9223372036854775808", "18446744073709551615", "18446744073709551616", "99999999999999999999", "6148914691236517205", "3074457345618258603",
];

pub fn mutate(rng: &mut Rng, valid: &str, size: usize) -> String {
    let mut toks = tokens(valid);
    let nums: Vec<usize> = (0..toks.len()).filter(|&k| is_number(&toks[k])).collect();
    // degree lists written with zeros (undefined degrees): one zero per chamber, per orbit, or any number
    if rng.chance(1, 12) {
        let joined = toks.join("");
        let parts: Vec<&str> = joined.split(':').collect();
        if parts.len() == 4 {
            let lists: Vec<String> = parts[3]
                .trim_end_matches('>')
                .split(',')
                .map(|l| {
                    if rng.chance(2, 3) {
                        let k = 1 + rng.below(size.max(1) + 1);
                        vec!["0"; k].join(" ")
                    } else {
                        l.to_string()
                    }
                })
                .collect();
            return format!("{}:{}:{}:{}>", parts[0], parts[1], parts[2], lists.join(","));
        }
    }
    let nmut = 1 + rng.below(2);
    for _ in 0..nmut {
        if toks.is_empty() {
            break;
        }
        match rng.below(12) {
            0 | 1 | 2 => {
                // replace a number
                if let Some(&k) = nums.get(rng.below(nums.len().max(1))) {
                    if k < toks.len() {
                        toks[k] = match rng.below(4) {
                            0 => HOSTILE_NUMBERS[rng.below(HOSTILE_NUMBERS.len())].to_string(),
                            1 => size.to_string(),
                            2 => (size + 1).to_string(),
                            _ => rng.below(size + 3).to_string(),
                        };
                    }
                }
            }
            3 => {
                // the size or dim field specifically (third / fourth number)
                let pos = 2 + rng.below(2);
                if let Some(&k) = nums.get(pos) {
                    if k < toks.len() {
                        toks[k] = HOSTILE_NUMBERS[rng.below(HOSTILE_NUMBERS.len())].to_string();
                    }
                }
            }
            4 => {
                let k = rng.below(toks.len());
                toks.remove(k);
            }
            5 => {
                let k = rng.below(toks.len());
                let t = toks[k].clone();
                toks.insert(k, t);
            }
            6 => {
                // swap two number tokens (inconsistent pairing)
                if nums.len() >= 2 {
                    let a = nums[rng.below(nums.len())];
                    let b = nums[rng.below(nums.len())];
                    if a < toks.len() && b < toks.len() {
                        toks.swap(a, b);
                    }
                }
            }
            7 => {
                let k = rng.below(toks.len() + 1);
                let t = ["<", ">", ":", ".", ",", " ", "\n", "\t", "-", "+", "x", "\u{e9}", "\u{2003}", "\u{0}"][rng.below(14)];
                toks.insert(k, t.to_string());
            }
            8 => {
                // duplicate a whole section
                let joined = toks.join("");
                let parts: Vec<&str> = joined.split(':').collect();
                let k = rng.below(parts.len());
                let mut p: Vec<String> = parts.iter().map(|x| x.to_string()).collect();
                p.insert(k, parts[k].to_string());
                return p.join(":");
            }
            9 => {
                // whitespace variation (stays valid)
                for t in toks.iter_mut() {
                    if t.chars().all(|c| c.is_whitespace()) && rng.chance(1, 2) {
                        *t = ["  ", "\n", " \t ", "\r\n"][rng.below(4)].to_string();
                    }
                }
            }
            10 => {
                // truncate
                let joined = toks.join("");
                let cut = rng.below(joined.len() + 1);
                let mut c = cut;
                while !joined.is_char_boundary(c) {
                    c -= 1;
                }
                return joined[..c].to_string();
            }
            _ => {
                // suffix
                let joined = toks.join("");
                let cut = rng.below(joined.len() + 1);
                let mut c = cut;
                while !joined.is_char_boundary(c) {
                    c -= 1;
                }
                return joined[c..].to_string();
            }
        }
    }
    toks.join("")
}

fn token_soup(rng: &mut Rng) -> String {
    let alphabet = ["<", ">", ":", ".", ",", " ", "  ", "\n", "\t", "0", "1", "2", "3", "4", "12", "1 2", "1.1", "<1.1:", ":3,4>", "a", "-1", "\u{fc}", "99999999999", "18446744073709551616"];
    let n = rng.below(14);
    (0..n).map(|_| alphabet[rng.below(alphabet.len())]).collect::<Vec<_>>().join("")
}

pub fn run(cfg: &Cfg) -> Report {
    let mut report = Report::new(cfg);
    let seed = cfg.seed;

    // ---------------- round trips ----------------
    let mut symbols: Vec<MSym> = vec![];
    for s in gen::connected_sets_upto(2, cfg.tier.pick(5, 6)) {
        gen::for_all_branchings(&s, &|_, _| vec![1, 2, 3, 4], &mut |x| symbols.push(x.clone()));
    }
    for s in gen::connected_sets_upto(3, cfg.tier.pick(3, 4)) {
        gen::for_all_branchings(&s, &|_, _| vec![1, 2, 3], &mut |x| symbols.push(x.clone()));
    }
    for s in gen::connected_sets_upto(1, 6) {
        gen::for_all_branchings(&s, &|_, _| vec![1, 2, 5, 12], &mut |x| symbols.push(x.clone()));
    }
    // disconnected and renumbered ones
    let mut rng = Rng::stream(seed, 0x01);
    let extra: Vec<MSym> = symbols.iter().step_by(37).map(|s| s.renumbered(&rng.perm1(s.n))).collect();
    symbols.extend(extra);
    symbols.extend(gen::corpus());
    // branching numbers at representation boundaries (2^8, 2^16, 2^31, 2^32, 2^53 ...), on small sets
    {
        let mut rng = Rng::stream(seed, 0x01_b0);
        let small: Vec<MSym> = gen::connected_sets_upto(2, 3).into_iter().chain(gen::connected_sets_upto(3, 2)).collect();
        for s in &small {
            for _ in 0..cfg.tier.pick(6, 40) {
                symbols.push(gen::random_branching(&mut rng, s, gen::BOUNDARY_VS));
            }
        }
        // large structured sets (flags of polyhedra, projective-plane and torus maps, regular 4-polytopes)
        for (_, s) in gen::structured_2d_sets().into_iter().chain(gen::structured_3d_sets()) {
            symbols.push(gen::random_branching(&mut rng, &s, &[1, 2, 3, 12, 255, 256, 65536]));
            symbols.push(s.renumbered(&rng.perm1(s.n)));
        }
        // beyond 2^16 chambers
        symbols.push(gen::strip_2d(cfg.tier.pick(65_540, 140_000), true));
    }
    // rejected and abandoned parses between judged cases: texts of valid symbols whose *degree lists* are
    // spoilt (one number too few or too many, a degree that is not a multiple of its orbit length), i.e. strings
    // that fail late, after operations and part of the degrees have been accepted
    {
        let base: Vec<String> = symbols.iter().filter(|m| m.n >= 2 && m.n <= 12).step_by(41).take(600).map(|m| m.to_text()).collect();
        let base = std::sync::Arc::new(base);
        crate::monitor::set_poison(move |k| {
            if base.is_empty() {
                return;
            }
            let t = &base[(k as usize / 4) % base.len()];
            let body = t.trim_end_matches('>');
            let spoilt = match k % 4 {
                0 => format!("{} 7>", body),
                1 => match body.rfind(|c: char| c == ' ' || c == ',' || c == ':') {
                    Some(p) => format!("{}>", &body[..p]),
                    None => body.to_string(),
                },
                2 => match body.rfind(|c: char| c == ' ' || c == ',' || c == ':') {
                    Some(p) => format!("{}1000003>", &body[..=p]),
                    None => body.to_string(),
                },
                _ => format!("{},3>", body),
            };
            let _ = spoilt.parse::<PartialDSym>();
        });
    }
    let valid_texts: Vec<(String, usize)> = symbols.iter().filter(|m| m.n <= 400).step_by(cfg.tier.pick(23, 7)).map(|m| (m.to_text(), m.n)).collect();
    let ctx = par_items(cfg, &symbols, |ctx, k, m| {
        judge_round_trip(ctx, m);
        if k % 5000 == 0 {
            ctx.sample(|| json!({"round_trip": m.to_text()}));
        }
    });
    report.absorb(ctx);

    // large symbols: iterated double covers (multi-digit chamber numbers, long lines)
    let bases: Vec<MSym> = gen::connected_sets_upto(2, 4).into_iter().chain(gen::connected_sets_upto(3, 3)).collect();
    let ctx = par_range(cfg, cfg.tier.pick(120, 1200), |ctx, k| {
        let mut rng = Rng::stream(seed, 0x01_1000 + k as u64);
        let mut m = bases[k % bases.len()].clone();
        for _ in 0..(4 + rng.below(cfg.tier.pick(4, 6))) {
            m = m.double_cover_by_cocycle(&|_, _| true);
        }
        for (i, _, members, _) in gen::adjacent_orbits(&m) {
            let v = 1 + rng.below(12);
            for e in members {
                m.v[i][e] = v;
            }
        }
        let m = m.renumbered(&rng.perm1(m.n));
        judge_round_trip(ctx, &m);
    });
    report.absorb(ctx);

    // generator output (counters in the header are labels)
    let gsyms: Vec<SimpleDSym> = observe(|| DSets::new(2, cfg.tier.pick(5, 7)).flat_map(|s| DSyms::new(&s, Geometries::All).take(8).collect::<Vec<_>>()).collect::<Vec<_>>()).unwrap_or_default();
    let ctx = par_items(cfg, &gsyms, |ctx, _, y| {
        ctx.eval();
        let text = match observe(|| y.to_string()) {
            Ok(t) => t,
            Err(p) => {
                ctx.violation(&format!("panic@{}", p.short_loc()), "Display for SimpleDSym", json!({"generator_symbol": [y.set_count(), y.symbol_count()]}), p.to_json(), "no panic");
                return;
            }
        };
        let m = from_dsym(y);
        match observe(|| text.parse::<PartialDSym>()) {
            Ok(Ok(p)) => {
                if from_dsym(&p) != m {
                    ctx.violation("round-trip-changes-symbol", "Display for SimpleDSym + from_str", json!({"printed": text}), json!({"parsed_back": from_dsym(&p).to_text()}), "structurally equal symbol");
                }
            }
            Ok(Err(e)) => ctx.violation("printed-symbol-rejected", "Display for SimpleDSym + from_str", json!({"printed": text}), json!({"error": e}), "printed symbols parse"),
            Err(p) => ctx.violation(&format!("panic@{}", p.short_loc()), "PartialDSym::from_str", json!({"printed": text}), p.to_json(), "no panic"),
        }
        ctx.count("generator_symbol_round_trips");
    });
    report.absorb(ctx);

    // ---------------- totality ----------------
    let nmut = cfg.tier.pick(4_000_000, 40_000_000);
    let ctx = par_range(cfg, nmut, |ctx, k| {
        // one child per worker chunk would be ideal; a child is spawned lazily per case batch
        thread_local! { static CHILD: std::cell::RefCell<Option<ParseChild>> = std::cell::RefCell::new(None); }
        let mut rng = Rng::stream(seed, 0x01_2000_0000 + k as u64);
        let (valid, size) = &valid_texts[k % valid_texts.len()];
        let s = match k % 16 {
            0 => token_soup(&mut rng),
            1 => valid.clone(),
            _ => mutate(&mut rng, valid, *size),
        };
        CHILD.with(|c| {
            let mut c = c.borrow_mut();
            let o = judge_string(ctx, &mut c, &s, "mutation");
            if s == *valid {
                // a text printed from a valid symbol is accepted whatever this thread parsed before (the
                // preceding strings on this worker are mostly rejected ones)
                ctx.count("valid_texts_parsed_between_rejected_strings");
                if let Outcome::Err(e) = &o {
                    ctx.violation("valid-text-rejected", "PartialDSym::from_str", json!({"string": s, "origin": "valid text parsed on a thread that parsed rejected strings before"}), json!({"error": e}), "the printed form of a valid symbol parses");
                }
            }
            if s != *valid {
                ctx.nontrivial(digest_str(&s));
            }
            if k < 8 {
                ctx.sample(|| json!({"string": s, "outcome": o.class()}));
            }
        });
        ctx.count("strings");
    });
    report.absorb(ctx);

    // long rejected strings with one multi-byte character at every byte offset up to 420 after the first
    // offending character (error paths that cut, quote or measure the unparsed rest of the input)
    let tails: Vec<(usize, usize)> = (0..cfg.tier.pick(420, 1200)).flat_map(|off| (0..4).map(move |w| (off, w))).collect();
    let ctx = par_items(cfg, &tails, |ctx, k, &(off, which)| {
        let mut child = None;
        let (valid, _) = &valid_texts[k % valid_texts.len()];
        let wide = ["\u{e9}", "\u{2003}", "\u{1F600}", "\u{fc}\u{fc}"][which];
        // the first offending character is '!', placed before, inside and after a valid text
        for (j, head) in [String::from("!"), format!("{}!", valid), format!("{}!", &valid[..valid.len() / 2]), String::from("<1.1:!")].iter().enumerate() {
            let filler: String = (0..off).map(|i| if j % 2 == 0 { 'x' } else { [' ', '1', ',', ':'][i % 4] }).collect();
            let s = format!("{}{}{}{}", head, filler, wide, "y".repeat(40));
            judge_string(ctx, &mut child, &s, "multi-byte character at a byte offset after the first offending character");
            ctx.nontrivial(digest_str(&s));
        }
        ctx.count("long_rejected_strings_with_a_multibyte_character");
    });
    report.absorb(ctx);

    // every prefix and suffix of some valid texts
    let pre: Vec<&(String, usize)> = valid_texts.iter().step_by(cfg.tier.pick(40, 5)).collect();
    let ctx = par_items(cfg, &pre, |ctx, _, (t, _)| {
        let mut child = None;
        for cut in 0..=t.len() {
            if t.is_char_boundary(cut) {
                judge_string(ctx, &mut child, &t[..cut], "prefix");
                judge_string(ctx, &mut child, &t[cut..], "suffix");
                ctx.nontrivial(digest_str(&t[..cut]));
            }
        }
        ctx.count("texts_with_all_prefixes_and_suffixes");
    });
    report.absorb(ctx);

    // fixed hostile strings
    let mut ctx = Ctx::new();
    let mut child = None;
    for s in [
        "", " ", "<", "<>", "<1.1:1:1,1,1:3,4>", "<1.1:1:0,1,1:3,4>", "<1.1:2:3,1 2,1 2:3,4>", "<1.1:3:2 2,1 2 3,1 2 3:3,4>", "<1.1:0:1,1,1:3,4>", "<1.1:1 0:1:3>",
        "<1.1:1 18446744073709551615:1:1>", "<1.1:1 18446744073709551614:1:1>", "<1.1:18446744073709551615:1,1,1:1,1>", "<1.1:6148914691236517206:1,1,1:1,1>",
        "<1.1:100000000000:1,1,1:1,1>", "<1.1:1000000:1,1,1:1,1>", "<1.1:4611686018427387904 3:1,1,1,1:1,1,1>", "<1.1:1:1,1,1:0,0>", "<1.1:2:2,2,2:0 0,0>", "<1.1:2:1 2,1 2,1 2:3 3,3 3>",
        "<1.1:1 1:1,1:1>", "<1.1:1 5:1,1,1,1,1,1:1,1,1,1,1>", "<1.1:2:2,2,2:1,1>", "<1.1:2:2,2,2:3,4>", "<1.1:2:2,2,2:2,3>", "<1.1:1:1,1,1:3,4> trailing", "<1.1:1:1,1,1:3,4><1.1:1:1,1,1:3,4>",
    ] {
        judge_string(&mut ctx, &mut child, s, "fixed hostile string");
    }
    drop(child);
    report.absorb(ctx);

    report.rule = "round trip: all 2D symbols on connected sets up to the size bound with v in 1..4, all 3D ones with v in 1..3, 1D ones, renumbered copies, the literature corpus, iterated double covers with up to ~1000 chambers and two-digit degrees, DSyms generator output; totality: valid texts (which must be accepted whatever the thread parsed before), long rejected strings with a multi-byte character at every byte offset up to 420 after the first offending character, 1-2 token mutations of them (hostile numbers 0, size, size+1, 2^31, 2^63, 2^64, 10^11, ...; deleted/duplicated/swapped tokens; inserted separators and non-ASCII; duplicated sections; truncations), token soup, every prefix and suffix of valid texts, fixed hostile strings. Strings with a digit run >= 7 are parsed in a child process under a 3 GiB address-space limit so that an allocation abort is observed instead of killing the monitor. Non-trivial: symbol with >= 2 chambers and a non-identity operation (round trip); string different from every valid text (totality); distinct = distinct digests".into();
    report.explanation = "round trip judged structurally against the model that generated the symbol; accepted strings judged by re-reading the returned symbol through op/v and checking involutions, range and degree consistency; outcome of every string is one of ok / err / panic / abort".into();
    report.assume("strings are sampled beyond the enumerated prefixes/suffixes; m = 0 degrees are multiples of every orbit length and are accepted");
    report.require_counter("round_trips", 1000);
    report.require_counter("round_trip_100plus_chambers", 10);
    report.require_counter("strings", (nmut / 2) as u64);
    report.require_counter("outcome.ok", 1000);
    report.require_counter("parsed_in_child_process", 100);
    report.require_distinct("outcome_classes", 6);
    report
}

pub fn replay(ctx: &mut Ctx, input: &Value) -> bool {
    if let Some(s) = input.get("string").and_then(|x| x.as_str()) {
        let mut child = None;
        judge_string(ctx, &mut child, s, input.get("origin").and_then(|x| x.as_str()).unwrap_or(""));
        return true;
    }
    if let Some(t) = input.get("symbol").and_then(|x| x.as_str()) {
        if let Some(m) = msym_from_text(t) {
            judge_round_trip(ctx, &m);
            return true;
        }
    }
    false
}
