//! C02 — basic D-set queries agree with their definitions in every representation.

use crate::bridge::*;
use crate::gen;
use crate::monitor::{digest, observe, par_items, par_range, Cfg, Ctx, Report};
use crate::oracle::dsym::MSym;
use crate::rng::Rng;
use rust_dsymbols::derived::{as_dset, as_dsym, as_partial_dsym};
use rust_dsymbols::dsets::{DSet, Sign};
use rust_dsymbols::dsyms::{DSym, PartialDSym};
use rust_dsymbols::generators::dset_generators::DSets;
use rust_dsymbols::generators::dsym_generators::{DSyms, Geometries};
use serde_json::{json, Value};
use std::collections::{BTreeMap, BTreeSet};

fn subsets_of(items: &[usize]) -> Vec<Vec<usize>> {
    (0..(1usize << items.len())).map(|mask| (0..items.len()).filter(|&b| mask >> b & 1 == 1).map(|b| items[b]).collect()).collect()
}

/// All queries that exist on plain D-sets. `m` is the model of the same set.
pub fn check_set<T: DSet>(ctx: &mut Ctx, rep: &str, ds: &T, m: &MSym, rng: &mut Rng, exhaustive_subsets: bool) {
    let input = || json!({"representation": rep, "symbol": m.to_text()});
    let api = |q: &str| format!("{}::{}", rep, q);
    let (n, dim) = (m.n, m.dim);
    let mut bad: Vec<(String, String, Value)> = vec![];

    let r = observe(|| {
        let mut bad: Vec<(String, String, Value)> = vec![];
        if ds.size() != n || ds.dim() != dim {
            bad.push(("size-dim".into(), "size/dim".into(), json!([ds.size(), ds.dim()])));
            return bad;
        }
        // op, r over the full argument box including out-of-range values
        for i in 0..=(dim + 2) {
            for d in 0..=(n + 2) {
                let in_range = i <= dim && d >= 1 && d <= n;
                let got = ds.op(i, d);
                let want = if in_range { Some(m.op[i][d]) } else { None };
                if got != want {
                    bad.push(("op".into(), "op".into(), json!({"i": i, "d": d, "got": got, "expected": want})));
                }
                for j in 0..=(dim + 2) {
                    let in_range = i <= dim && j <= dim && d >= 1 && d <= n;
                    let got = ds.r(i, j, d);
                    let want = if in_range { Some(if i == j { 1 } else { m.r(i, j, d) }) } else { None };
                    if got != want {
                        bad.push(("r-is-orbit-length".into(), "r".into(), json!({"i": i, "j": j, "d": d, "got": got, "expected": want})));
                    }
                    let gm = ds.m(i, j, d);
                    if gm.is_some() != in_range {
                        bad.push(("m-none-iff-out-of-range".into(), "m".into(), json!({"i": i, "j": j, "d": d, "got": gm})));
                    }
                }
            }
        }
        // predicates
        let preds = [
            ("is_complete", ds.is_complete(), true),
            ("is_connected", ds.is_connected(), m.is_connected()),
            ("is_loopless", ds.is_loopless(), m.is_loopless()),
            ("is_weakly_oriented", ds.is_weakly_oriented(), m.is_weakly_oriented()),
            ("is_oriented", ds.is_oriented(), m.is_oriented()),
        ];
        for (name, got, want) in preds {
            if got != want {
                bad.push((format!("predicate-{}", name), name.to_string(), json!({"got": got, "expected": want})));
            }
        }
        // partial orientation
        let ori = ds.partial_orientation();
        if ori.len() != n + 1 || (1..=n).any(|d| ori[d] == Sign::ZERO) {
            bad.push(("orientation-total".into(), "partial_orientation".into(), json!("some chamber without sign")));
        } else if m.is_weakly_oriented() {
            for i in 0..=dim {
                for d in 1..=n {
                    let e = m.op[i][d];
                    if e != d && ori[e] == ori[d] {
                        bad.push(("orientation-is-2-colouring".into(), "partial_orientation".into(), json!({"i": i, "d": d})));
                    }
                }
            }
        }
        // orbit_reps_2d
        for i in 0..=dim {
            for j in 0..=dim {
                let reps = ds.orbit_reps_2d(i, j);
                let comp = m.components(&[i, j]);
                let ncomp = (1..=n).map(|d| comp[d]).collect::<BTreeSet<_>>().len();
                let seen: BTreeSet<usize> = reps.iter().filter(|&&d| d >= 1 && d <= n).map(|&d| comp[d]).collect();
                if reps.len() != ncomp || seen.len() != ncomp {
                    bad.push(("orbit-reps-2d-one-per-orbit".into(), "orbit_reps_2d".into(), json!({"i": i, "j": j, "reps": reps, "orbits": ncomp})));
                }
            }
        }
        bad
    });
    ctx.eval();
    match r {
        Ok(b) => bad.extend(b),
        Err(p) => {
            ctx.violation(&format!("panic@{}", p.short_loc()), &api("basic queries"), input(), p.to_json(), "out-of-range arguments give None, never a panic");
            return;
        }
    }

    // orbits, orbit_reps, traversals over index subsets and seed lists
    let all_idx: Vec<usize> = (0..=dim).collect();
    let huge = n > 5000;
    let idx_sets: Vec<Vec<usize>> = if exhaustive_subsets { subsets_of(&all_idx) } else { (0..(if huge { 1 } else { 4 })).map(|_| all_idx.iter().cloned().filter(|_| rng.chance(1, 2)).collect()).chain([all_idx.clone()]).collect() };
    // an index LIST denotes an index set: repeats and other orders must not change what is reported
    let mut idx_sets = idx_sets;
    if exhaustive_subsets {
        for i in 0..=dim {
            idx_sets.push(vec![i, i]);
            for j in (i + 1)..=dim {
                idx_sets.push(vec![j, i]);
                idx_sets.push(vec![i, j, i]);
                idx_sets.push(vec![j, j, i]);
            }
        }
        let mut rev = all_idx.clone();
        rev.reverse();
        idx_sets.push(rev);
    } else if !huge {
        let (i, j) = (rng.below(dim + 1), rng.below(dim + 1));
        idx_sets.push(vec![i, j, i]);
        idx_sets.push(vec![j, i, i, j]);
    }
    let seed_lists: Vec<Vec<usize>> = if exhaustive_subsets && n <= 5 {
        let mut l: Vec<Vec<usize>> = vec![];
        for a in 1..=n {
            l.push(vec![a]);
            for b in 1..=n {
                if b != a {
                    l.push(vec![a, b]);
                    if n <= 4 {
                        for c in 1..=n {
                            if c != a && c != b {
                                l.push(vec![a, b, c]);
                            }
                        }
                    }
                }
            }
        }
        l.push((1..=n).collect());
        l.push((1..=n).rev().collect());
        // seed lists with repeats
        l.push(vec![n, n]);
        l.push(vec![1, n, 1]);
        l
    } else {
        let mut l = vec![(1..=n).collect::<Vec<_>>(), (1..=n).rev().collect()];
        for _ in 0..(if huge { 1 } else { 4 }) {
            let mut s: Vec<usize> = (1..=n).collect();
            rng.shuffle(&mut s);
            s.truncate(1 + rng.below(n.min(4)));
            l.push(s);
        }
        l
    };
    for idcs in &idx_sets {
        let comp = m.components(idcs);
        // orbit
        for seed in if exhaustive_subsets { (1..=n).collect::<Vec<_>>() } else { vec![1, 1 + rng.below(n)] } {
            let r = observe(|| ds.orbit(idcs.iter().cloned(), seed));
            ctx.eval();
            match r {
                Ok(got) => {
                    let want = m.orbit(idcs, seed);
                    let gs: BTreeSet<usize> = got.iter().cloned().collect();
                    if gs.len() != got.len() || gs != want.iter().cloned().collect() {
                        bad.push(("orbit-is-reachability".into(), "orbit".into(), json!({"indices": idcs, "seed": seed, "got": got, "expected": want})));
                    }
                }
                Err(p) => bad.push((format!("panic@{}", p.short_loc()), "orbit".into(), p.to_json())),
            }
        }
        for seeds in &seed_lists {
            // orbit_reps
            let r = observe(|| ds.orbit_reps(idcs.iter().cloned(), seeds.iter().cloned()));
            ctx.eval();
            match r {
                Ok(reps) => {
                    let want_comps: BTreeSet<usize> = seeds.iter().map(|&d| comp[d]).collect();
                    let got_comps: Vec<usize> = reps.iter().filter(|&&d| d >= 1 && d <= n).map(|&d| comp[d]).collect();
                    let ok = reps.iter().all(|d| seeds.contains(d))
                        && got_comps.len() == reps.len()
                        && got_comps.iter().cloned().collect::<BTreeSet<_>>().len() == reps.len()
                        && got_comps.iter().cloned().collect::<BTreeSet<_>>() == want_comps;
                    if !ok {
                        bad.push(("orbit-reps-exactly-one-per-component".into(), "orbit_reps".into(), json!({"indices": idcs, "seeds": seeds, "got": reps})));
                    }
                }
                Err(p) => bad.push((format!("panic@{}", p.short_loc()), "orbit_reps".into(), p.to_json())),
            }
            // traversal
            let r = observe(|| ds.traversal(idcs.iter().cloned(), seeds.iter().cloned()).collect::<Vec<_>>());
            ctx.eval();
            match r {
                Ok(items) => {
                    let reached: BTreeSet<usize> = seeds.iter().map(|&d| comp[d]).collect();
                    let mut roots: BTreeMap<usize, usize> = BTreeMap::new();
                    let mut edges: BTreeMap<(usize, usize, usize), usize> = BTreeMap::new();
                    let mut problem: Option<String> = None;
                    for &(mi, d, e) in &items {
                        if d < 1 || d > n || e < 1 || e > n {
                            problem = Some(format!("chamber out of range in {:?}", (mi, d, e)));
                            break;
                        }
                        match mi {
                            None => {
                                if d != e || !seeds.contains(&d) {
                                    problem = Some(format!("bad root item {:?}", (mi, d, e)));
                                }
                                *roots.entry(comp[d]).or_insert(0) += 1;
                            }
                            Some(i) => {
                                if !idcs.contains(&i) || m.op[i][d] != e {
                                    problem = Some(format!("item {:?} is not an edge of the set", (mi, d, e)));
                                }
                                *edges.entry((i, d.min(e), d.max(e))).or_insert(0) += 1;
                            }
                        }
                        if !reached.contains(&comp[d]) {
                            problem = Some(format!("item {:?} lies in an unreached component", (mi, d, e)));
                        }
                    }
                    if problem.is_none() {
                        if roots.len() != reached.len() || roots.values().any(|&c| c != 1) {
                            problem = Some("not exactly one root item per reached component".into());
                        }
                        // every i-edge of every reached component exactly once
                        let mut want: BTreeSet<(usize, usize, usize)> = BTreeSet::new();
                        for d in 1..=n {
                            if reached.contains(&comp[d]) {
                                for &i in idcs {
                                    let e = m.op[i][d];
                                    want.insert((i, d.min(e), d.max(e)));
                                }
                            }
                        }
                        if edges.values().any(|&c| c != 1) {
                            problem = Some("an edge was reported more than once".into());
                        } else if edges.keys().cloned().collect::<BTreeSet<_>>() != want {
                            problem = Some("edge set of the traversal differs from the edges of the reached components".into());
                        }
                    }
                    if let Some(pr) = problem {
                        bad.push((
                            "traversal-every-edge-exactly-once".into(),
                            "traversal".into(),
                            json!({"indices": idcs, "seeds": seeds, "problem": pr, "items": items.iter().map(|&(a, b, c)| json!([a, b, c])).collect::<Vec<_>>()}),
                        ));
                    }
                }
                Err(p) => bad.push((format!("panic@{}", p.short_loc()), "traversal".into(), p.to_json())),
            }
        }
    }
    // walk
    for _ in 0..4 {
        let d = 1 + rng.below(n);
        let path: Vec<usize> = (0..rng.below(6)).map(|_| rng.below(dim + 1)).collect();
        let want = path.iter().fold(d, |e, &i| m.op[i][e]);
        match observe(|| ds.walk(d, path.iter().cloned())) {
            Ok(got) => {
                if got != Some(want) {
                    bad.push(("walk".into(), "walk".into(), json!({"d": d, "path": path, "got": got, "expected": want})));
                }
            }
            Err(p) => bad.push((format!("panic@{}", p.short_loc()), "walk".into(), p.to_json())),
        }
    }
    let mut seen = BTreeSet::new();
    for (clause, q, obs) in bad {
        if seen.insert((clause.clone(), q.clone())) {
            ctx.violation(&clause, &api(&q), input(), obs, "query equals its definition on the model of the same set");
        }
    }
}

/// Queries that exist only on symbols.
pub fn check_sym<T: DSym>(ctx: &mut Ctx, rep: &str, ds: &T, m: &MSym) {
    let input = || json!({"representation": rep, "symbol": m.to_text()});
    let (n, dim) = (m.n, m.dim);
    let r = observe(|| {
        let mut bad: Vec<(String, String, Value)> = vec![];
        for i in 0..=(dim + 2) {
            for j in 0..=(dim + 2) {
                for d in 0..=(n + 2) {
                    let in_range = i <= dim && j <= dim && d >= 1 && d <= n;
                    let gv = ds.v(i, j, d);
                    let gm = ds.m(i, j, d);
                    let gr = ds.r(i, j, d);
                    if !in_range {
                        if gv.is_some() || gm.is_some() || gr.is_some() {
                            bad.push(("out-of-range-gives-none".into(), "v/m/r".into(), json!({"i": i, "j": j, "d": d, "v": gv, "m": gm, "r": gr})));
                        }
                        continue;
                    }
                    let wr = if i == j { 1 } else { m.r(i, j, d) };
                    let wv = m.vv(i, j, d);
                    if gr != Some(wr) {
                        bad.push(("r-is-orbit-length".into(), "r".into(), json!({"i": i, "j": j, "d": d, "got": gr, "expected": wr})));
                    }
                    if gv != Some(wv) {
                        bad.push(("v".into(), "v".into(), json!({"i": i, "j": j, "d": d, "got": gv, "expected": wv})));
                    }
                    if gm != Some(wr * wv) {
                        bad.push(("m-equals-r-times-v".into(), "m".into(), json!({"i": i, "j": j, "d": d, "got": gm, "expected": wr * wv})));
                    }
                }
            }
        }
        bad
    });
    ctx.eval();
    match r {
        Ok(bad) => {
            let mut seen = BTreeSet::new();
            for (clause, q, obs) in bad {
                if seen.insert(clause.clone()) {
                    ctx.violation(&clause, &format!("{}::{}", rep, q), input(), obs, "r = orbit length, m = r*v, out of range = None");
                }
            }
        }
        Err(p) => ctx.violation(&format!("panic@{}", p.short_loc()), &format!("{}::r/v/m", rep), input(), p.to_json(), "out-of-range arguments give None, never a panic"),
    }
}

/// Runs every representation of one valid model symbol.
pub fn check_all_representations(ctx: &mut Ctx, m: &MSym, rng: &mut Rng, exhaustive_subsets: bool, with_parser: bool) {
    let build = observe(|| {
        let pset = to_partial_dset(m);
        let sset = to_simple_dset(m);
        let psym = to_partial_dsym(m);
        let ssym = to_simple_dsym(m);
        (pset, sset, psym, ssym)
    });
    let (pset, sset, psym, ssym) = match build {
        Ok(x) => x,
        Err(p) => {
            ctx.violation(&format!("panic@{}", p.short_loc()), "build_set/build_sym_using_vs/From", json!({"symbol": m.to_text()}), p.to_json(), "constructing a valid symbol does not panic");
            return;
        }
    };
    let plain = MSym::from_ops(m.dim, m.n, m.op.clone());
    check_set(ctx, "PartialDSet", &pset, &plain, rng, exhaustive_subsets);
    check_set(ctx, "SimpleDSet", &sset, &plain, rng, exhaustive_subsets);
    check_set(ctx, "PartialDSym", &psym, m, rng, exhaustive_subsets);
    check_set(ctx, "SimpleDSym", &ssym, m, rng, exhaustive_subsets);
    check_sym(ctx, "PartialDSym", &psym, m);
    check_sym(ctx, "SimpleDSym", &ssym, m);
    // conversions
    if let Ok(x) = observe(|| as_partial_dsym(&ssym)) {
        check_sym(ctx, "as_partial_dsym(SimpleDSym)", &x, m);
    }
    if let Ok(x) = observe(|| as_dset(&ssym)) {
        check_set(ctx, "as_dset(SimpleDSym)", &x, &plain, rng, false);
    }
    if let Ok(x) = observe(|| as_dsym(&sset)) {
        check_sym(ctx, "as_dsym(SimpleDSet)", &x, &plain);
    }
    if with_parser {
        let text = m.to_text();
        if let Ok(Ok(x)) = observe(|| text.parse::<PartialDSym>()) {
            check_sym(ctx, "parsed PartialDSym", &x, m);
            check_set(ctx, "parsed PartialDSym", &x, m, rng, false);
        }
    }
}

fn nontrivial_key(m: &MSym) -> Option<u64> {
    if m.n >= 2 {
        Some(digest(m))
    } else {
        None
    }
}

/// Builder histories on `PartialDSet`: random `set` / `grow` calls, a fair share of them with arguments the
/// builder has to reject (out of range, or in conflict with an entry made earlier). A rejected call panics;
/// the caller catches that and goes on using the object, which must then be exactly what the accepted calls
/// made it: every defined operation entry pairs two chambers, nothing else is defined.
pub fn run_builder_history(ctx: &mut Ctx, size0: usize, dim: usize, calls: &[(u8, usize, usize, usize)]) -> u64 {
    use rust_dsymbols::dsets::PartialDSet;
    let input = || json!({"builder": "PartialDSet", "size": size0, "dim": dim, "calls": calls.iter().map(|&(k, i, d, e)| if k == 0 { json!(["set", i, d, e]) } else { json!(["grow", i]) }).collect::<Vec<_>>()});
    let mut lib = match observe(|| PartialDSet::new(size0, dim)) {
        Ok(l) => l,
        Err(_) => return 0,
    };
    let mut size = size0;
    let mut model: Vec<Vec<usize>> = vec![vec![0; size + 1]; dim + 1]; // model[i][d]
    let mut judged = 0u64;
    let mut rejected = 0u64;
    for (step, &(kind, i, d, e)) in calls.iter().enumerate() {
        if kind == 1 {
            let count = i;
            if observe(|| lib.grow(count)).is_err() {
                ctx.violation("panic-in-grow", "PartialDSet::grow", input(), json!({"step": step}), "no panic");
                return judged;
            }
            size += count;
            for row in model.iter_mut() {
                row.resize(size + 1, 0);
            }
        } else {
            let legal = i <= dim && d >= 1 && d <= size && e >= 1 && e <= size && (model[i][d] == 0 || model[i][d] == e) && (model[i][e] == 0 || model[i][e] == d);
            let r = observe(|| lib.set(i, d, e));
            match (legal, r.is_ok()) {
                (true, true) => {
                    model[i][d] = e;
                    model[i][e] = d;
                }
                (true, false) => {
                    ctx.violation("builder-rejects-a-consistent-entry", "PartialDSet::set", input(), json!({"step": step, "call": [i, d, e]}), "a consistent entry is accepted");
                    return judged;
                }
                (false, true) => {
                    ctx.violation("builder-accepts-an-inconsistent-entry", "PartialDSet::set", input(), json!({"step": step, "call": [i, d, e]}), "an entry that is out of range or contradicts an earlier one is rejected");
                    return judged;
                }
                (false, false) => rejected += 1,
            }
        }
        // the whole state after every call
        judged += 1;
        if lib.size() != size || lib.dim() != dim {
            ctx.violation("builder-state-differs-from-the-accepted-calls", "PartialDSet", input(), json!({"step": step, "size": lib.size(), "dim": lib.dim()}), "size and dimension as built");
            return judged;
        }
        for ii in 0..=dim {
            for dd in 1..=size {
                let got = lib.op(ii, dd);
                let want = if model[ii][dd] == 0 { None } else { Some(model[ii][dd]) };
                if got != want {
                    ctx.violation(
                        "builder-state-differs-from-the-accepted-calls",
                        "PartialDSet::set",
                        input(),
                        json!({"step": step, "i": ii, "d": dd, "op": got, "expected": want, "rejected_calls_so_far": rejected}),
                        "after a rejected call (caught panic) the object is what the accepted calls made it: every defined entry pairs two chambers",
                    );
                    return judged;
                }
            }
        }
    }
    if rejected > 0 {
        ctx.count("builder_histories_with_a_rejected_call");
    }
    judged
}

fn builder_histories(cfg: &Cfg) -> Ctx {
    let seed = cfg.seed;
    par_range(cfg, cfg.tier.pick(150_000, 3_000_000), |ctx, k| {
        let mut rng = Rng::stream(seed, 0x02_B000_0000 + k as u64);
        let size = 1 + rng.below(6);
        let dim = 1 + rng.below(3);
        let mut cur = size;
        let calls: Vec<(u8, usize, usize, usize)> = (0..(6 + rng.below(16)))
            .map(|_| {
                if rng.chance(1, 12) {
                    let c = rng.below(3);
                    cur += c;
                    (1u8, c, 0, 0)
                } else {
                    (0u8, rng.below(dim + 2), rng.below(cur + 2), rng.below(cur + 2))
                }
            })
            .collect();
        let j = run_builder_history(ctx, size, dim, &calls);
        ctx.evals(j);
        ctx.count("builder_histories");
        ctx.nontrivial(digest(&("builder", size, dim, &calls)));
    })
}

pub fn run(cfg: &Cfg) -> Report {
    let mut report = Report::new(cfg);
    let seed = cfg.seed;
    // (A) every labelled valid set (connected or not) at the exhaustive bounds, with branchings
    let bounds: Vec<(usize, usize)> = match cfg.tier {
        crate::monitor::Tier::Quick => vec![(1, 6), (2, 5), (3, 4), (4, 3)],
        crate::monitor::Tier::Thorough => vec![(1, 8), (2, 6), (3, 5), (4, 4)],
    };
    for &(dim, nmax) in &bounds {
        for n in 1..=nmax {
            let sets = gen::all_sets(dim, n);
            let ctx = par_items(cfg, &sets, |ctx, k, s| {
                let mut rng = Rng::stream(seed, digest(&(dim, n, k)));
                let orbits = gen::adjacent_orbits(s);
                let mut syms: Vec<MSym> = vec![];
                if orbits.len() <= 4 {
                    gen::for_all_branchings(s, &|_, _| vec![1, 2, 3], &mut |x| syms.push(x.clone()));
                } else {
                    for _ in 0..6 {
                        let mut x = s.clone();
                        for (i, _, members, _) in &orbits {
                            let v = 1 + rng.below(4);
                            for &e in members {
                                x.v[*i][e] = v;
                            }
                        }
                        syms.push(x);
                    }
                }
                // thin out the branching variants for bigger sets: the set-level queries do not depend on v
                let stride = if syms.len() > 9 { syms.len() / 9 } else { 1 };
                for (t, m) in syms.iter().enumerate() {
                    if t % stride != 0 {
                        continue;
                    }
                    debug_assert!(m.is_valid_symbol());
                    check_all_representations(ctx, m, &mut rng, t == 0, t == 0);
                    if let Some(key) = nontrivial_key(m) {
                        ctx.nontrivial(key);
                    }
                    // the property's r = 1 / r = 2 cases for far index pairs
                    for i in 0..=dim {
                        for j in (i + 2)..=dim {
                            for d in 1..=n {
                                if m.r(i, j, d) == 1 {
                                    ctx.count(&format!("dim{}.far_pair_r1", dim));
                                } else {
                                    ctx.count(&format!("dim{}.far_pair_r2", dim));
                                }
                            }
                        }
                    }
                }
                ctx.count(&format!("labelled_sets.dim{}", dim));
                if k == 0 && n == nmax {
                    ctx.sample(|| json!({"symbol": syms[syms.len() - 1].to_text(), "representations": ["PartialDSet", "SimpleDSet", "PartialDSym", "SimpleDSym", "as_partial_dsym", "as_dset", "as_dsym", "parsed"]}));
                }
            });
            report.absorb(ctx);
        }
    }

    // (B) generator outputs as SimpleDSet / SimpleDSym instances
    let gen_bounds = cfg.tier.pick(vec![(2usize, 6usize), (3, 4)], vec![(2, 8), (3, 6)]);
    for (dim, n) in gen_bounds {
        let sets: Vec<_> = match observe(|| DSets::new(dim, n).collect::<Vec<_>>()) {
            Ok(s) => s,
            Err(_) => vec![],
        };
        let ctx = par_items(cfg, &sets, |ctx, k, s| {
            let mut rng = Rng::stream(seed, 0x02_0000 + k as u64);
            let m = from_dset(s);
            if !(m.is_complete_set() && m.ops_are_involutions() && m.far_ops_commute()) {
                return; // judged by C06
            }
            check_set(ctx, "SimpleDSet from DSets", s, &m, &mut rng, false);
            ctx.count("generator_sets");
            if dim == 2 && k % 3 == 0 {
                if let Ok(syms) = observe(|| DSyms::new(s, Geometries::All).take(12).collect::<Vec<_>>()) {
                    for y in syms {
                        let my = from_dsym(&y);
                        if my.is_valid_symbol() {
                            check_sym(ctx, "SimpleDSym from DSyms", &y, &my);
                            check_set(ctx, "SimpleDSym from DSyms", &y, &my, &mut rng, false);
                            ctx.count("generator_symbols");
                            ctx.nontrivial(digest(&my));
                        }
                    }
                }
            }
        });
        report.absorb(ctx);
    }

    // (C) large sets: iterated orientation double covers of small sets, randomly renumbered
    let bases: Vec<MSym> = gen::connected_sets_upto(2, 4).into_iter().chain(gen::connected_sets_upto(3, 3)).collect();
    let nbig = cfg.tier.pick(200, 2000);
    let ctx = par_range(cfg, nbig, |ctx, k| {
        let mut rng = Rng::stream(seed, 0x02_8000 + k as u64);
        let mut m = bases[k % bases.len()].clone();
        let doublings = 3 + rng.below(cfg.tier.pick(4, 6));
        for _ in 0..doublings {
            m = m.double_cover_by_cocycle(&|_, _| true);
        }
        for i in 0..m.dim {
            for d in 1..=m.n {
                m.v[i][d] = 1;
            }
        }
        // branching: constant per orbit, random
        for (i, _, members, _) in gen::adjacent_orbits(&m) {
            let v = 1 + rng.below(3);
            for e in members {
                m.v[i][e] = v;
            }
        }
        let p = rng.perm1(m.n);
        let m = m.renumbered(&p);
        debug_assert!(m.is_valid_symbol());
        check_all_representations(ctx, &m, &mut rng, false, true);
        ctx.nontrivial(digest(&m));
        ctx.count("large_sets");
        if m.n >= 100 {
            ctx.count("large_sets_100plus");
        }
    });
    report.absorb(ctx);

    // (C') large structured sets and a strip with more than 2^16 chambers, every representation
    let mut big: Vec<MSym> = vec![];
    {
        let mut rng = Rng::stream(seed, 0x02_b0);
        for (_, s) in gen::structured_2d_sets().into_iter().chain(gen::structured_3d_sets()) {
            big.push(gen::random_branching(&mut rng, &s, &[1, 2, 3, 255, 256, 65536, 4294967296]).renumbered(&rng.perm1(s.n)));
        }
        for s in gen::connected_sets_upto(2, 3) {
            big.push(gen::random_branching(&mut rng, &s, gen::BOUNDARY_VS));
        }
        let lad = gen::ladder_2d(cfg.tier.pick(16_386, 32_770));
        big.push(gen::random_branching(&mut rng, &lad, &[1, 2, 3]));
        if cfg.tier == crate::monitor::Tier::Thorough {
            let lad = gen::ladder_2d(17_500);
            big.push(gen::random_branching(&mut rng, &lad, &[1, 2]).renumbered(&rng.perm1(70_000)));
        }
    }
    let ctx = par_items(cfg, &big, |ctx, k, m| {
        let mut rng = Rng::stream(seed, 0x02_b100 + k as u64);
        check_all_representations(ctx, m, &mut rng, false, m.n <= 1000);
        ctx.nontrivial(digest(m));
        ctx.count("structured_or_huge_sets");
        if m.n > 65_536 {
            ctx.count("sets_beyond_65536_chambers");
        }
    });
    report.absorb(ctx);

    // (C'') sets built through PartialDSet::new + grow(k) histories instead of new(size)
    let ctx = par_range(cfg, cfg.tier.pick(3000, 60_000), |ctx, k| {
        use rust_dsymbols::dsets::PartialDSet;
        let mut rng = Rng::stream(seed, 0x02_b200 + k as u64);
        let base = &bases[k % bases.len()];
        let m = MSym::from_ops(base.dim, base.n, base.op.clone());
        // random composition of the size: n = k0 + g1 + g2 + ... (g may be 0)
        let mut parts = vec![1 + rng.below(m.n)];
        while parts.iter().sum::<usize>() < m.n {
            let rest = m.n - parts.iter().sum::<usize>();
            parts.push(rng.below(rest + 1).max(if rng.chance(1, 5) { 0 } else { 1 }).min(rest));
        }
        let r = observe(|| {
            let mut ds = PartialDSet::new(parts[0], m.dim);
            for &g in &parts[1..] {
                ds.grow(g);
            }
            for i in 0..=m.dim {
                for d in 1..=m.n {
                    ds.set(i, d, m.op[i][d]);
                }
            }
            ds
        });
        ctx.eval();
        match r {
            Ok(ds) => check_set(ctx, "PartialDSet built by new + grow", &ds, &m, &mut rng, false),
            Err(p) => ctx.violation(&format!("panic@{}", p.short_loc()), "PartialDSet::{new,grow,set}", json!({"symbol": m.to_text(), "size_composition": parts}), p.to_json(), "a set grown in steps answers like one allocated at once"),
        }
        ctx.count("grow_histories");
    });
    report.absorb(ctx);

    // (D) incomplete sets: no-panic only
    let ctx = par_range(cfg, cfg.tier.pick(20_000, 400_000), |ctx, k| {
        let mut rng = Rng::stream(seed, 0x02_c000 + k as u64);
        let base = &bases[k % bases.len()];
        let mut m = base.clone();
        // either random holes, or holes in a single index only (e.g. only the highest one)
        let only = if rng.chance(1, 2) { Some(rng.below(m.dim + 1)) } else { None };
        for i in 0..=m.dim {
            if only.map_or(false, |o| o != i) {
                continue;
            }
            for d in 1..=m.n {
                if rng.chance(1, 3) {
                    let e = m.op[i][d];
                    m.op[i][d] = 0;
                    if e != 0 {
                        m.op[i][e] = 0;
                    }
                }
            }
        }
        // predicates whose definitions extend verbatim to partial sets: totality, absence of (defined)
        // fixed points, reachability along defined edges, op = None on undefined entries
        let incomplete = !m.is_complete_set();
        let r2 = observe(|| {
            let ds = to_partial_dset(&m);
            let mut bad: Vec<(&str, Value)> = vec![];
            if ds.is_complete() == incomplete {
                bad.push(("predicate-is_complete", json!({"got": ds.is_complete(), "expected": !incomplete})));
            }
            if ds.is_loopless() != m.is_loopless() {
                bad.push(("predicate-is_loopless", json!({"got": ds.is_loopless(), "expected": m.is_loopless()})));
            }
            if ds.is_connected() != m.is_connected() {
                bad.push(("predicate-is_connected", json!({"got": ds.is_connected(), "expected": m.is_connected()})));
            }
            for i in 0..=m.dim {
                for d in 1..=m.n {
                    let want = if m.op[i][d] == 0 { None } else { Some(m.op[i][d]) };
                    if ds.op(i, d) != want {
                        bad.push(("op", json!({"i": i, "d": d, "got": ds.op(i, d), "expected": want})));
                    }
                }
            }
            bad
        });
        if let Ok(bad) = r2 {
            for (c, o) in bad.into_iter().take(1) {
                ctx.violation(c, "PartialDSet (incomplete)", json!({"ops": m.op}), o, "complete = every entry defined; loopless / connected / op by their definitions on the defined entries");
            }
        }
        if incomplete {
            ctx.count("incomplete_sets_predicates_judged");
        }
        let r = observe(|| {
            let ds = to_partial_dset(&m);
            let mut acc = 0usize;
            for i in 0..=(m.dim + 1) {
                for j in 0..=(m.dim + 1) {
                    for d in 0..=(m.n + 1) {
                        acc += ds.r(i, j, d).unwrap_or(0) + ds.m(i, j, d).unwrap_or(0);
                    }
                }
            }
            acc += ds.full_traversal().count();
            acc += ds.orbit_reps(0..=m.dim, 1..=m.n).len();
            acc += ds.is_connected() as usize + ds.is_complete() as usize + ds.is_loopless() as usize + ds.is_oriented() as usize;
            acc
        });
        ctx.eval();
        ctx.count("incomplete_sets_no_panic_only");
        if let Err(p) = r {
            ctx.violation(&format!("panic@{}", p.short_loc()), "PartialDSet queries on an incomplete set", json!({"ops": m.op}), p.to_json(), "no panic");
        }
    });
    report.absorb(ctx);

    report.absorb(builder_histories(cfg));
    report.require_counter("builder_histories_with_a_rejected_call", 1000);
    report.rule = format!("(E) PartialDSet builder histories with rejected calls (caught panics) in between, state compared after every call; (A) every labelled tuple of involutions with commuting far operations (connected or not) for (dim, max size) in {:?}, with all branching assignments from {{1,2,3}} when there are <= 4 two-orbits (random otherwise); each queried as PartialDSet, SimpleDSet, PartialDSym, SimpleDSym, through the as_* conversions and the parser, over the full argument box [0,dim+2]^2 x [0,size+2], all index subsets and seed lists of size <= 3; (B) DSets / DSyms generator outputs; (C) iterated orientation double covers up to several hundred chambers, renumbered; (D) incomplete sets (random holes, or holes in one index only): is_complete / is_loopless / is_connected / op judged, everything else for absence of panics. Non-trivial = valid symbol with >= 2 chambers queried in >= 2 representations; distinct = distinct symbol digests", bounds);
    report.explanation = "oracle MSym: orbit length by iterating the product of two operations, reachability by BFS, bipartiteness by 2-colouring; all representations are compared with the same model, hence with each other".into();
    report.note("exhaustive_subuniverses", json!(bounds.iter().map(|(d, n)| format!("all labelled D-sets of dimension {} with <= {} chambers", d, n)).collect::<Vec<_>>()));
    report.assume("verdict domain: complete sets whose far operations commute; on incomplete sets only the predicates whose definitions extend verbatim (complete, loopless, connected, op) are judged, the rest is exercised for absence of panics");
    for &(dim, _) in &bounds {
        report.require_counter(&format!("labelled_sets.dim{}", dim), 10);
        if dim >= 2 {
            report.require_counter(&format!("dim{}.far_pair_r1", dim), 1);
            report.require_counter(&format!("dim{}.far_pair_r2", dim), 1);
        }
    }
    report.require_counter("generator_sets", 50);
    report.require_counter("generator_symbols", 50);
    report.require_counter("large_sets_100plus", 5);
    report.require_counter("sets_beyond_65536_chambers", 1);
    report.require_counter("grow_histories", 1000);
    report.require_counter("incomplete_sets_predicates_judged", 500);
    report
}

pub fn replay(ctx: &mut Ctx, input: &Value) -> bool {
    if let Some(calls) = input.get("calls").and_then(|x| x.as_array()) {
        let size = input.get("size").and_then(|x| x.as_u64()).unwrap_or(1) as usize;
        let dim = input.get("dim").and_then(|x| x.as_u64()).unwrap_or(1) as usize;
        let calls: Vec<(u8, usize, usize, usize)> = calls
            .iter()
            .filter_map(|c| {
                let a = c.as_array()?;
                let u = |k: usize| a.get(k).and_then(|x| x.as_u64()).map(|x| x as usize);
                if a.get(0)?.as_str()? == "set" { Some((0u8, u(1)?, u(2)?, u(3)?)) } else { Some((1u8, u(1)?, 0, 0)) }
            })
            .collect();
        run_builder_history(ctx, size, dim, &calls);
        return true;
    }
    if let Some(t) = input.get("symbol").and_then(|x| x.as_str()) {
        if let Some(m) = msym_from_text(t) {
            let mut rng = Rng::new(1);
            check_all_representations(ctx, &m, &mut rng, m.n <= 5, true);
            return true;
        }
    }
    false
}
