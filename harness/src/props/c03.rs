//! C03 — canonical form is a complete isomorphism invariant.

use crate::bridge::*;
use crate::gen;
use crate::monitor::{digest, observe, par_items, par_range, Cfg, Ctx, Report};
use crate::oracle::dsym::MSym;
use crate::rng::Rng;
use rust_dsymbols::derived::canonical;
use rust_dsymbols::dsyms::minimal_traversal_code;
use serde_json::{json, Value};
use std::collections::{BTreeMap, BTreeSet};
use std::sync::Mutex;

/// Canonical form of the library for a model symbol, read back as a model. `simple` selects
/// the representation handed to `canonical`.
fn lib_canonical(m: &MSym, simple: bool) -> Result<MSym, crate::monitor::PanicInfo> {
    observe(|| {
        if simple {
            from_dsym(&canonical(&to_simple_dsym(m)))
        } else {
            from_dsym(&canonical(&to_partial_dsym(m)))
        }
    })
}

/// Judges one symbol with a list of renumberings; returns the library's canonical form.
pub fn judge(ctx: &mut Ctx, m: &MSym, perms: &[Vec<usize>], k: usize) -> Option<MSym> {
    let input = || json!({"symbol": m.to_text()});
    ctx.eval();
    let c = match ctx.no_panic("derived::canonical", input, lib_canonical(m, k % 2 == 1)) {
        Some(c) => c,
        None => return None,
    };
    if !c.is_valid_symbol() || c.n != m.n || c.dim != m.dim || !c.iso(m) {
        ctx.violation("canonical-form-not-isomorphic-to-input", "derived::canonical", input(), json!({"canonical": c.to_text()}), "the canonical form is isomorphic to the input");
        return None;
    }
    // fixed point
    match lib_canonical(&c, false) {
        Ok(cc) => {
            if cc != c {
                ctx.violation("canonical-form-not-a-fixed-point", "derived::canonical", input(), json!({"canonical": c.to_text(), "canonical_of_canonical": cc.to_text()}), "canonical(canonical(S)) = canonical(S)");
            }
        }
        Err(p) => ctx.violation(&format!("panic@{}", p.short_loc()), "derived::canonical", json!({"symbol": c.to_text()}), p.to_json(), "no panic"),
    }
    // equality of canonical forms under the type's own Eq must coincide with isomorphism:
    // compare with a sibling symbol (same set, one branching number changed) and with a renumbered copy
    {
        let mut sib = m.clone();
        let orbits = gen::adjacent_orbits(m);
        let (oi, _, members, _) = &orbits[k % orbits.len()];
        for &e in members {
            sib.v[*oi][e] = if m.v[*oi][e] == 1 { 2 } else { m.v[*oi][e] - 1 };
        }
        let ren = m.renumbered(&gen::some_perms1(m.n, 0, &mut Rng::new(k as u64))[0]);
        for (what, other) in [("sibling with one branching number changed", &sib), ("renumbered copy", &ren)] {
            let r = observe(|| canonical(&to_partial_dsym(m)) == canonical(&to_partial_dsym(other)));
            if let Ok(lib_eq) = r {
                let iso = m.iso(other);
                if lib_eq != iso {
                    ctx.violation(
                        "canonical-forms-equal-iff-isomorphic",
                        "derived::canonical + PartialEq for PartialDSym",
                        json!({"symbol": m.to_text(), "other": other.to_text(), "relation": what}),
                        json!({"canonical_forms_compare_equal": lib_eq, "isomorphic": iso}),
                        "two connected symbols have equal canonical forms if and only if they are isomorphic",
                    );
                }
                ctx.count(if iso { "eq_checked_on_isomorphic_pair" } else { "eq_checked_on_non_isomorphic_pair" });
            }
        }
    }
    // the code itself is a relabelling-invariant too
    let code = observe(|| minimal_traversal_code(&to_partial_dsym(m)).get_code()).ok();
    // renumberings
    let autos = m.automorphisms();
    for p in perms {
        let mp = m.renumbered(p);
        ctx.eval();
        let is_auto = autos.iter().any(|a| a[1..] == p[1..]);
        if !is_auto && m.n >= 3 {
            ctx.count("renumberings_not_automorphisms");
        }
        match lib_canonical(&mp, k % 3 == 0) {
            Ok(cp) => {
                if cp != c {
                    ctx.violation(
                        "renumbering-changes-canonical-form",
                        "derived::canonical",
                        json!({"symbol": m.to_text(), "renumbered": mp.to_text()}),
                        json!({"canonical": c.to_text(), "canonical_of_renumbered": cp.to_text()}),
                        "every renumbering of the chambers yields the same canonical form",
                    );
                    break;
                }
            }
            Err(pn) => {
                ctx.violation(&format!("panic@{}", pn.short_loc()), "derived::canonical", json!({"symbol": mp.to_text()}), pn.to_json(), "no panic");
                break;
            }
        }
        if let Some(code) = &code {
            if let Ok(c2) = observe(|| minimal_traversal_code(&to_partial_dsym(&mp)).get_code()) {
                if c2 != *code {
                    ctx.violation("renumbering-changes-minimal-traversal-code", "dsyms::minimal_traversal_code", json!({"symbol": m.to_text(), "renumbered": mp.to_text()}), json!({"code": code, "code_of_renumbered": c2}), "relabelling-independent code");
                    break;
                }
            }
        }
    }
    if m.n >= 3 {
        ctx.nontrivial(digest(m));
    }
    Some(c)
}

pub fn run(cfg: &Cfg) -> Report {
    let mut report = Report::new(cfg);
    let seed = cfg.seed;

    // universe: 2D symbols on connected sets <= n2 chambers with v in 1..3, 3D <= n3 with v in {1,2,3}
    let (n2, n3) = cfg.tier.pick((6, 4), (7, 5));
    let mut symbols: Vec<MSym> = vec![];
    let mut rng0 = Rng::stream(seed, 3);
    for s in gen::connected_sets_upto(2, n2) {
        if gen::adjacent_orbits(&s).len() <= 6 {
            gen::for_all_branchings(&s, &|_, _| vec![1, 2, 3], &mut |x| symbols.push(x.clone()));
        } else {
            for _ in 0..120 {
                let mut x = s.clone();
                for (i, _, members, _) in gen::adjacent_orbits(&s) {
                    let v = 1 + rng0.below(3);
                    for e in members {
                        x.v[i][e] = v;
                    }
                }
                symbols.push(x);
            }
        }
    }
    for s in gen::connected_sets_upto(3, n3) {
        let orbits = gen::adjacent_orbits(&s).len();
        if orbits <= 5 {
            gen::for_all_branchings(&s, &|_, _| vec![1, 2, 3], &mut |x| symbols.push(x.clone()));
        } else {
            for _ in 0..40 {
                let mut x = s.clone();
                for (i, _, members, _) in gen::adjacent_orbits(&s) {
                    let v = 1 + rng0.below(3);
                    for e in members {
                        x.v[i][e] = v;
                    }
                }
                symbols.push(x);
            }
        }
    }
    // branching numbers at representation boundaries on small sets (all renumberings are applied below)
    for s in gen::connected_sets_upto(2, 4).into_iter().chain(gen::connected_sets_upto(3, 3)) {
        for _ in 0..cfg.tier.pick(4, 30) {
            symbols.push(gen::random_branching(&mut rng0, &s, gen::BOUNDARY_VS));
        }
    }
    // branching numbers around the sign bit of the machine word, on orbits of length 1 only (m = r * v has to
    // stay representable): comparisons of degrees as signed and as unsigned numbers part company here
    const SIGN_VS: &[usize] = &[1 << 62, (1 << 63) - 1, 1 << 63, (1 << 63) + 1, (1 << 63) + (1 << 62), usize::MAX - 1, usize::MAX];
    for s in gen::connected_sets_upto(2, 4).into_iter().chain(gen::connected_sets_upto(3, 3)) {
        for _ in 0..cfg.tier.pick(6, 40) {
            let mut x = s.clone();
            let mut huge = 0;
            for (i, _, members, r) in gen::adjacent_orbits(&s) {
                let v = if r == 1 && rng0.chance(2, 3) {
                    huge += 1;
                    *rng0.pick(SIGN_VS)
                } else {
                    1 + rng0.below(3)
                };
                for e in members {
                    x.v[i][e] = v;
                }
            }
            if huge > 0 {
                symbols.push(x);
            }
        }
    }
    // large structured sets with few distinct branching numbers (many automorphisms, many tied seeds)
    for (_, s) in gen::structured_2d_sets().into_iter().chain(gen::structured_3d_sets()) {
        if s.n <= cfg.tier.pick(130, 400) {
            symbols.push(gen::random_branching(&mut rng0, &s, &[1, 1, 1, 2]));
            symbols.push(gen::random_branching(&mut rng0, &s, &[1, 2, 3, 256, 65536]));
        }
    }
    // random larger 2D symbols (7-14 chambers) built constructively, branching up to 12
    symbols.extend(gen::random_larger_2d_symbols(seed, cfg.tier.pick(4_000, 200_000), cfg.tier.pick(14, 24), &[1, 1, 2, 2, 3, 3, 4, 5, 6, 12]));
    // plus labelled variants: all renumberings are applied below, but also feed *distinct non-isomorphic*
    // symbols of equal size into the partition comparison (clause 4)
    let partition_lib: Mutex<BTreeMap<MSym, BTreeSet<Vec<usize>>>> = Mutex::new(BTreeMap::new());
    let all_perms: Vec<Vec<Vec<usize>>> = (0..=5).map(|n| if n == 0 { vec![] } else { gen::all_perms1(n) }).collect();
    let ctx = par_items(cfg, &symbols, |ctx, k, m| {
        let mut rng = Rng::stream(seed, 0x03_0000 + k as u64);
        let perms: Vec<Vec<usize>> = if m.n <= 4 || (m.n == 5 && k % 4 == 0) {
            all_perms[m.n].clone()
        } else {
            gen::some_perms1(m.n, cfg.tier.pick(6, 30), &mut rng)
        };
        if let Some(c) = judge(ctx, m, &perms, k) {
            partition_lib.lock().unwrap().entry(c).or_default().insert(m.canon_bf());
        }
        if k % 4000 == 0 {
            ctx.sample(|| json!({"symbol": m.to_text(), "renumberings_applied": perms.len()}));
        }
    });
    report.absorb(ctx);

    // clause (4): partition by library canonical form == partition by brute-force canonical form
    {
        let part = partition_lib.into_inner().unwrap();
        let mut ctx = Ctx::new();
        let mut bf_to_lib: BTreeMap<Vec<usize>, BTreeSet<MSym>> = BTreeMap::new();
        let mut multi = 0u64;
        for (c, bfs) in &part {
            ctx.eval();
            if bfs.len() > 1 {
                ctx.violation(
                    "non-isomorphic-symbols-share-a-canonical-form",
                    "derived::canonical",
                    json!({"canonical": c.to_text()}),
                    json!({"distinct_isomorphism_classes": bfs.len()}),
                    "equal canonical forms only for isomorphic symbols",
                );
            }
            for b in bfs {
                bf_to_lib.entry(b.clone()).or_default().insert(c.clone());
            }
        }
        for (_, libs) in &bf_to_lib {
            if libs.len() > 1 {
                let l: Vec<String> = libs.iter().map(|x| x.to_text()).collect();
                ctx.violation("isomorphic-symbols-get-different-canonical-forms", "derived::canonical", json!({"canonical_forms": l}), json!(libs.len()), "isomorphic symbols have equal canonical forms");
            }
        }
        // classes that contained >= 2 labelled symbols: measured through the renumbering loop
        multi += part.len() as u64;
        ctx.add("canonical_classes", multi);
        report.absorb(ctx);
    }

    // large symbols: iterated double covers, random renumberings
    let bases: Vec<MSym> = gen::connected_sets_upto(2, 4).into_iter().chain(gen::connected_sets_upto(3, 3)).filter(|s| !s.is_weakly_oriented()).collect();
    let ctx = par_range(cfg, cfg.tier.pick(24, 200), |ctx, k| {
        let mut rng = Rng::stream(seed, 0x03_8000 + k as u64);
        let mut m = bases[k % bases.len()].clone();
        // one orientation double cover keeps it connected; then glue further copies by non-orientable tricks is not
        // available, so grow by taking the connected double cover only
        m = m.double_cover_by_cocycle(&|_, _| true);
        if !m.is_connected() {
            return;
        }
        for (i, _, members, _) in gen::adjacent_orbits(&m) {
            let v = 1 + rng.below(4);
            for e in members {
                m.v[i][e] = v;
            }
        }
        let perms = gen::some_perms1(m.n, 8, &mut rng);
        judge(ctx, &m, &perms, k);
        ctx.count("double_cover_symbols");
    });
    report.absorb(ctx);

    // beyond 2^16 chambers: a strip whose (1,2)-orbits carry pairwise different branching numbers (so that
    // every seed is rejected at its first degree and canonicalisation is linear); judged by fixed point,
    // invariance under renumbering and equality of the degree multiset (a full isomorphism test is quadratic)
    let ctx = par_range(cfg, cfg.tier.pick(1, 3), |ctx, k| {
        let mut rng = Rng::stream(seed, 0x03_b000 + k as u64);
        let n = [65_540usize, 70_000, 131_080][k];
        let m = gen::strip_2d(n, true);
        let input = || json!({"symbol": format!("strip_2d({}, distinct branching numbers)", n)});
        ctx.eval();
        let c = match ctx.no_panic("derived::canonical", input, lib_canonical(&m, false)) {
            Some(c) => c,
            None => return,
        };
        let degs = |x: &MSym| { let mut v: Vec<Vec<usize>> = (1..=x.n).map(|d| x.degrees(d)).collect(); v.sort(); v };
        if !c.is_valid_symbol() || c.n != m.n || degs(&c) != degs(&m) || !c.is_connected() {
            ctx.violation("canonical-form-not-isomorphic-to-input", "derived::canonical", input(), json!({"size": c.n}), "valid symbol with the same degrees");
            return;
        }
        for which in 0..cfg.tier.pick(1, 2) {
            let p = if which == 0 { let mut r = vec![0]; r.extend((1..=n).rev()); r } else { rng.perm1(n) };
            match lib_canonical(&m.renumbered(&p), which == 1) {
                Ok(cp) => {
                    if cp != c {
                        ctx.violation("renumbering-changes-canonical-form", "derived::canonical", input(), json!({"renumbering": if which == 0 { "reversal" } else { "random" }}), "every renumbering yields the same canonical form");
                        return;
                    }
                }
                Err(pn) => {
                    ctx.violation(&format!("panic@{}", pn.short_loc()), "derived::canonical", input(), pn.to_json(), "no panic");
                    return;
                }
            }
        }
        ctx.count("symbols_beyond_65536_chambers");
        ctx.nontrivial(digest(&("huge", n)));
    });
    report.absorb(ctx);

    // long ties: a strip with branching 1 everywhere except one (1,2)-orbit slightly off the middle. The two
    // end seeds produce traversal codes that agree for tens of thousands of entries and differ only where the
    // marked orbit is reached, so whichever end is numbered first the comparison has to be carried through
    // (a seeded change capped the lazy comparison at 2^16 code entries and called the rest a tie).
    let long_ties: &[(usize, usize)] = &[(26_300, 13_130), (20_000, 10_011), (32_768, 16_400), (140_000, 70_020)];
    let ctx = par_range(cfg, cfg.tier.pick(3, 4), |ctx, k| {
        let mut rng = Rng::stream(seed, 0x03_c000 + k as u64);
        let (n, at) = long_ties[k];
        let mut m = gen::strip_2d(n, false);
        // (1,2)-orbits of the strip: {1}, {2,3}, {4,5}, ..., {n}
        let d0 = at - at % 2;
        m.v[1][d0] = 3;
        m.v[1][d0 + 1] = 3;
        let input = || json!({"symbol": format!("strip_2d({}) with v12 = 3 on the orbit {{{},{}}}", n, d0, d0 + 1)});
        if !m.is_valid_symbol() {
            ctx.inconclusive.push("harness: long-tie strip is not a valid symbol".into());
            return;
        }
        ctx.eval();
        let c = match ctx.no_panic("derived::canonical", input, lib_canonical(&m, false)) {
            Some(c) => c,
            None => return,
        };
        let marked = |x: &MSym| (1..=x.n).filter(|&d| x.v[1][d] == 3).collect::<Vec<_>>();
        if !c.is_valid_symbol() || c.n != m.n || marked(&c).len() != 2 || !c.is_connected() {
            ctx.violation("canonical-form-not-isomorphic-to-input", "derived::canonical", input(), json!({"size": c.n, "marked": marked(&c)}), "valid symbol with the same degrees");
            return;
        }
        for which in 0..3 {
            let p = match which {
                0 => { let mut r = vec![0]; r.extend((1..=n).rev()); r }
                1 => rng.perm1(n),
                _ => { let mut r = vec![0]; r.extend((1..=n).map(|d| (d + n / 3) % n + 1)); r }
            };
            ctx.eval();
            match lib_canonical(&m.renumbered(&p), which == 1) {
                Ok(cp) => {
                    if cp != c {
                        ctx.violation("renumbering-changes-canonical-form", "derived::canonical", input(), json!({"renumbering": (["reversal", "random", "rotation"][which]), "marked_in_canonical": marked(&c), "marked_in_canonical_of_renumbered": marked(&cp)}), "every renumbering yields the same canonical form");
                        return;
                    }
                }
                Err(pn) => {
                    ctx.violation(&format!("panic@{}", pn.short_loc()), "derived::canonical", input(), pn.to_json(), "no panic");
                    return;
                }
            }
        }
        ctx.count("long_tie_symbols");
        ctx.nontrivial(digest(&("long-tie", n, at)));
    });
    report.absorb(ctx);
    report.require_counter("long_tie_symbols", 3);

    // larger connected symbols built by the library's own cover machinery, each validated as a
    // genuine symbol by the model before use (self-validating generator)
    let ctx = large_cover_symbols(cfg);
    report.absorb(ctx);

    report.rule = format!("all 2D symbols on connected sets with <= {} chambers and v in 1..3, all 3D ones with <= {} chambers (v in 1..3; sampled when > 5 two-orbits); for each, all n! renumberings when n <= 4 (and for every 4th symbol with n = 5), otherwise reverse, rotation and random renumberings; connected orientation double covers; validated covers with 100-600 chambers under random renumberings. Non-trivial = symbol with >= 3 chambers; distinct = distinct symbol digests", n2, n3);
    report.explanation = "clauses: canonical form isomorphic to the input (model isomorphism test), fixed point, invariance under every explored renumbering, and over the whole run the partition of inputs by library canonical form equals the partition by the brute-force canonical form (both directions of the iff, incl. non-isomorphic symbols of equal size)".into();
    report.note("exhaustive_subuniverses", json!([format!("2D symbols <= {} chambers v<=3 with all renumberings up to n=4", n2), format!("3D symbols <= {} chambers", n3)]));
    report.assume("domain: connected complete symbols");
    report.require_counter("renumberings_not_automorphisms", 10_000);
    report.require_counter("canonical_classes", 100);
    report.require_counter("eq_checked_on_non_isomorphic_pair", 100);
    report.require_counter("eq_checked_on_isomorphic_pair", 100);
    report.require_counter("large_cover_symbols", 5);
    report.require_counter("symbols_beyond_65536_chambers", 1);
    report
}

fn large_cover_symbols(cfg: &Cfg) -> Ctx {
    use rust_dsymbols::covers::finite_universal_cover;
    // spherical 2D symbols have finite universal covers of 24..120 chambers; 3D {3,3,3}/{4,3,3} give 120 / 384
    let texts = ["<1.1:1:1,1,1:3,3>", "<1.1:1:1,1,1:4,3>", "<1.1:1:1,1,1:3,5>", "<1.1:2:2,1 2,1 2:2,5 5>", "<1.1:1 3:1,1,1,1:3,3,3>", "<1.1:1 3:1,1,1,1:4,3,3>", "<1.1:2 3:2,2,2,2:4,3,3>"];
    let n = cfg.tier.pick(5, texts.len());
    let seed = cfg.seed;
    par_range(cfg, n, |ctx, k| {
        let base = msym_from_text(texts[k]).unwrap();
        let cov = match observe(|| from_dsym(&finite_universal_cover(&to_partial_dsym(&base)))) {
            Ok(c) => c,
            Err(_) => return,
        };
        if !cov.is_valid_symbol() || !cov.is_connected() {
            return; // judged by C05
        }
        let mut rng = Rng::stream(seed, 0x03_c000 + k as u64);
        let perms = gen::some_perms1(cov.n, cfg.tier.pick(4, 10), &mut rng);
        judge(ctx, &cov, &perms, k);
        ctx.count("large_cover_symbols");
    })
}

pub fn replay(ctx: &mut Ctx, input: &Value) -> bool {
    if let Some(m) = input.get("symbol").and_then(|x| x.as_str()).and_then(msym_from_text) {
        let mut rng = Rng::new(1);
        let mut perms = if m.n <= 5 { gen::all_perms1(m.n) } else { gen::some_perms1(m.n, 30, &mut rng) };
        if let Some(r) = input.get("renumbered").and_then(|x| x.as_str()).and_then(msym_from_text) {
            // find a permutation realising the recorded renumbering (small n) so that the same witness is replayed
            if m.n <= 7 {
                perms = gen::all_perms1(m.n).into_iter().filter(|p| m.renumbered(p) == r).collect();
            }
        }
        judge(ctx, &m, &perms, 0);
        return true;
    }
    false
}
