//! C05 — every cover constructor returns a genuine covering of the base symbol.

use crate::bridge::*;
use crate::gen;
use crate::monitor::{digest, observe, par_items, Cfg, Ctx, Report};
use crate::oracle::dsym::MSym;
use crate::oracle::groups::{self, reduce, Table, Word};
use crate::oracle::pi1;
use crate::rng::Rng;
use rust_dsymbols::covers::{cover_for_table, covers, finite_universal_cover, subgroup_cover};
use rust_dsymbols::derived::oriented_cover;
use rust_dsymbols::fpgroups::cosets::coset_tables;
use rust_dsymbols::fundamental_group::{fundamental_group, inner_edges};
use serde_json::{json, Value};
use std::collections::{BTreeMap, VecDeque};

/// Generic covering checks. Returns the number of sheets if the cover is genuine.
pub fn check_covering(ctx: &mut Ctx, api: &str, input: &dyn Fn() -> Value, base: &MSym, cov: &MSym) -> Option<usize> {
    if !cov.is_valid_symbol() {
        ctx.violation("cover-is-not-a-valid-complete-symbol", api, input(), json!({"cover_size": cov.n, "complete": cov.is_complete_set(), "involutions": cov.ops_are_involutions(), "v_consistent": cov.is_complete_set() && cov.ops_are_involutions() && cov.v_consistent()}), "complete symbol");
        return None;
    }
    if !cov.is_connected() {
        ctx.violation("cover-not-connected", api, input(), json!({"cover": cov.to_text()}), "connected");
        return None;
    }
    match cov.covering_map_onto(base) {
        Some((f, sheets)) => {
            // observation only: the library's numbering convention d -> ((d-1) mod |base|) + 1
            let conventional = (1..=cov.n).all(|d| f[d] == (d - 1) % base.n + 1) || {
                let g: Vec<usize> = (0..=cov.n).map(|d| if d == 0 { 0 } else { (d - 1) % base.n + 1 }).collect();
                cov.is_morphism(base, &g)
            };
            if conventional {
                ctx.count("projection_is_conventional_numbering");
            }
            Some(sheets)
        }
        None => {
            ctx.violation(
                "no-covering-map-onto-the-base",
                api,
                input(),
                json!({"cover": cov.to_text()}),
                "a projection that commutes with every operation, preserves every degree and has equally many preimages over every base chamber",
            );
            None
        }
    }
}

/// Cover of `base` built by the oracle from a transitive permutation representation of the
/// textbook presentation `tb` (chambers = (point, d)).
pub fn oracle_cover(base: &MSym, tb: &pi1::Pi1, t: &Table) -> MSym {
    let k = t.rows();
    let n = base.n;
    let id = |p: usize, d: usize| p * n + d;
    let mut c = MSym::new(base.dim, k * n);
    for p in 0..k {
        for d in 1..=n {
            for i in 0..=base.dim {
                let l = tb.letter[d][i];
                let q = if l == 0 { p } else { t.act(p, l) };
                c.op[i][id(p, d)] = id(q, base.op[i][d]);
            }
        }
    }
    for i in 0..base.dim {
        for x in 1..=k * n {
            let b = (x - 1) % n + 1;
            let r = c.r(i, i + 1, x);
            let m = base.m(i, i + 1, b);
            assert!(m % r == 0, "oracle cover: orbit length does not divide the degree");
            c.v[i][x] = m / r;
        }
    }
    c
}

pub struct LibGroup {
    pub ngens: usize,
    pub rels: Vec<Word>,
    pub gen_to_edge: BTreeMap<usize, (usize, usize)>,
    pub edge_to_word: BTreeMap<(usize, usize), Word>,
    pub inner: Vec<(usize, usize)>,
}

fn lib_group(base: &MSym) -> Result<LibGroup, crate::monitor::PanicInfo> {
    observe(|| {
        let ds = to_partial_dsym(base);
        let fg = fundamental_group(&ds);
        LibGroup {
            ngens: fg.nr_generators(),
            rels: from_freewords(fg.relators.iter()),
            gen_to_edge: fg.gen_to_edge.clone(),
            edge_to_word: fg.edge_to_word.iter().map(|(k, w)| (*k, from_freeword(w))).collect(),
            inner: inner_edges(&ds),
        }
    })
}

/// index path (sequence of operation indices from chamber 1) realising library generator k:
/// tree path inside the inner edges to the facet's chamber, across the facet, tree path back.
fn generator_paths(base: &MSym, lg: &LibGroup) -> Option<BTreeMap<i64, Vec<usize>>> {
    let mut inner = vec![vec![false; base.dim + 1]; base.n + 1];
    for &(d, i) in &lg.inner {
        inner[d][i] = true;
        inner[base.op[i][d]][i] = true;
    }
    let mut path: Vec<Option<Vec<usize>>> = vec![None; base.n + 1];
    path[1] = Some(vec![]);
    let mut q = VecDeque::from([1usize]);
    while let Some(d) = q.pop_front() {
        for i in 0..=base.dim {
            if inner[d][i] {
                let e = base.op[i][d];
                if path[e].is_none() {
                    let mut p = path[d].clone().unwrap();
                    p.push(i);
                    path[e] = Some(p);
                    q.push_back(e);
                }
            }
        }
    }
    let mut out = BTreeMap::new();
    for (&k, &(d, i)) in &lg.gen_to_edge {
        let e = base.op[i][d];
        let mut p = path[d].clone()?;
        p.push(i);
        let mut back = path[e].clone()?;
        back.reverse();
        p.extend(back);
        let inv: Vec<usize> = p.iter().rev().cloned().collect();
        out.insert(k as i64, p);
        out.insert(-(k as i64), inv);
    }
    Some(out)
}

pub fn judge_oriented(ctx: &mut Ctx, base: &MSym) {
    let input = || json!({"base": base.to_text(), "constructor": "oriented_cover"});
    ctx.eval();
    let r = observe(|| from_dsym(&oriented_cover(&to_partial_dsym(base))));
    let cov = match ctx.no_panic("derived::oriented_cover", &input, r) {
        Some(c) => c,
        None => return,
    };
    if let Some(sheets) = check_covering(ctx, "derived::oriented_cover", &input, base, &cov) {
        let want = if base.is_oriented() { 1 } else { 2 };
        if !cov.is_oriented() {
            ctx.violation("oriented-cover-not-oriented", "derived::oriented_cover", input(), json!({"cover": cov.to_text()}), "oriented");
        } else if sheets != want {
            ctx.violation("oriented-cover-sheet-number", "derived::oriented_cover", input(), json!({"sheets": sheets, "expected": want}), "one sheet if the base is oriented, two otherwise");
        }
        ctx.count("constructor.oriented_cover");
        if sheets >= 2 {
            ctx.nontrivial(digest(&("ori", base)));
        }
    }
}

pub fn judge_covers(ctx: &mut Ctx, base: &MSym, k: usize, budget: u64) {
    let input = || json!({"base": base.to_text(), "constructor": "covers", "max_sheets": k});
    ctx.eval();
    let r = observe(|| covers(&to_partial_dsym(base), k).iter().map(|c| from_dsym(c)).collect::<Vec<_>>());
    let list = match ctx.no_panic("covers::covers", &input, r) {
        Some(l) => l,
        None => return,
    };
    let mut canon_lib: Vec<Vec<usize>> = vec![];
    for cov in &list {
        match check_covering(ctx, "covers::covers", &input, base, cov) {
            Some(sheets) => {
                if sheets > k {
                    ctx.violation("cover-exceeds-sheet-bound", "covers::covers", input(), json!({"sheets": sheets}), "at most k sheets");
                    return;
                }
                canon_lib.push(cov.canon_bf());
                if sheets >= 2 {
                    ctx.nontrivial(digest(&("cov", base, cov)));
                }
            }
            None => return,
        }
    }
    // the oracle's own list
    let tb = pi1::textbook_pi1(base);
    if tb.pres.ngens > 7 {
        ctx.out_of_domain("textbook-presentation-too-large-for-the-low-index-oracle");
        return;
    }
    let tables = match groups::low_index(&tb.pres, k, budget) {
        Some(t) => t,
        None => {
            ctx.out_of_domain("low-index-oracle-budget");
            return;
        }
    };
    if tables.len() != list.len() {
        ctx.violation(
            "number-of-covers-differs-from-number-of-subgroup-classes",
            "covers::covers",
            input(),
            json!({"covers": list.len(), "conjugacy_classes_of_subgroups_of_index_le_k": tables.len()}),
            "exactly one entry per conjugacy class of subgroups of index at most k of the base's fundamental group",
        );
        return;
    }
    let mut canon_oracle: Vec<Vec<usize>> = tables.iter().map(|t| oracle_cover(base, &tb, t).canon_bf()).collect();
    canon_lib.sort();
    canon_oracle.sort();
    if canon_lib != canon_oracle {
        ctx.violation(
            "covers-differ-from-oracle-built-covers",
            "covers::covers",
            input(),
            json!({"covers": list.len()}),
            "the multiset of isomorphism types of the returned covers equals that of the covers built from all transitive permutation representations",
        );
        return;
    }
    ctx.count("constructor.covers");
    if base.automorphisms().len() > 1 {
        ctx.count("covers_multiset_compared_on_base_with_automorphisms");
    }
}

pub fn judge_cover_for_table(ctx: &mut Ctx, base: &MSym, k: usize) {
    let input = || json!({"base": base.to_text(), "constructor": "cover_for_table", "max_sheets": k});
    ctx.eval();
    let r = observe(|| {
        let ds = to_partial_dsym(base);
        let fg = fundamental_group(&ds);
        coset_tables(fg.nr_generators(), &fg.relators, k).map(|t| (t.len(), from_dsym(&cover_for_table(&ds, &t, &fg.edge_to_word)))).collect::<Vec<_>>()
    });
    let list = match ctx.no_panic("covers::cover_for_table", &input, r) {
        Some(l) => l,
        None => return,
    };
    for (rows, cov) in &list {
        if let Some(sheets) = check_covering(ctx, "covers::cover_for_table", &input, base, cov) {
            if sheets != *rows {
                ctx.violation("sheets-differ-from-table-rows", "covers::cover_for_table", input(), json!({"sheets": sheets, "rows": rows}), "one sheet per row of the coset table");
                return;
            }
        } else {
            return;
        }
    }
    ctx.count("constructor.cover_for_table");
}

pub fn judge_universal(ctx: &mut Ctx, base: &MSym, order: usize) {
    let input = || json!({"base": base.to_text(), "constructor": "finite_universal_cover"});
    ctx.eval();
    let r = observe(|| from_dsym(&finite_universal_cover(&to_partial_dsym(base))));
    let cov = match ctx.no_panic("covers::finite_universal_cover", &input, r) {
        Some(c) => c,
        None => return,
    };
    if let Some(sheets) = check_covering(ctx, "covers::finite_universal_cover", &input, base, &cov) {
        if sheets != order {
            ctx.violation("universal-cover-sheet-number", "covers::finite_universal_cover", input(), json!({"sheets": sheets, "order_of_fundamental_group": order}), "as many sheets as the fundamental group has elements");
            return;
        }
        // trivial fundamental group: the cover's own textbook presentation enumerates to order 1
        // (branching numbers > 1 may legitimately survive on bad orbifolds, so they are not judged)
        if cov.n <= 400 {
            let tb = pi1::textbook_pi1(&cov);
            match groups::order(&tb.pres, 50_000) {
                Some(1) => ctx.count("universal_cover_pi1_trivial_by_enumeration"),
                Some(o) => {
                    ctx.violation("universal-cover-has-nontrivial-fundamental-group", "covers::finite_universal_cover", input(), json!({"order": o}), "trivial fundamental group");
                    return;
                }
                None => ctx.count("universal_cover_pi1_enumeration_unfinished"),
            }
        }
        ctx.count("constructor.finite_universal_cover");
        if sheets >= 2 {
            ctx.nontrivial(digest(&("univ", base)));
        }
    }
}

pub fn judge_subgroup_cover(ctx: &mut Ctx, base: &MSym, rng: &mut Rng, attempts: usize) {
    let lg = match lib_group(base) {
        Ok(l) => l,
        Err(_) => return,
    };
    if lg.ngens == 0 {
        return;
    }
    // textbook presentation relative to the library's own simply connected domain, so that library
    // generator k and the facet generator of gen_to_edge[k] name the same loop (validated by C09)
    let tb = pi1::textbook_pi1_with_trivial_facets(base, Some(&lg.inner));
    let paths = match generator_paths(base, &lg) {
        Some(p) => p,
        None => return,
    };
    let translate = |w: &Word| -> Word {
        reduce(&w.iter().map(|&x| {
            let (d, i) = lg.gen_to_edge[&(x.unsigned_abs() as usize)];
            let l = tb.letter[d][i];
            if x > 0 { l } else { -l }
        }).filter(|&l| l != 0).collect::<Word>())
    };
    for _ in 0..attempts {
        let nw = 1 + rng.below(3);
        let regime = rng.below(3);
        let words: Vec<Word> = (0..nw)
            .map(|_| {
                // short (1-3), medium (3-6) and long (5-26) generating words
                let len = match regime { 0 => 1 + rng.below(3), 1 => 3 + rng.below(4), _ => 5 + rng.below(22) };
                reduce(&(0..len).map(|_| { let g = rng.range(1, lg.ngens as i64); if rng.chance(1, 2) { g } else { -g } }).collect::<Word>())
            })
            .filter(|w| !w.is_empty())
            .collect();
        if words.is_empty() {
            continue;
        }
        let input = || json!({"base": base.to_text(), "constructor": "subgroup_cover", "subgroup_generators": words});
        // index by the oracle; the library is only called for a finite moderate index
        let twords: Vec<Word> = words.iter().map(|w| translate(w)).collect();
        let index = match groups::todd_coxeter(&tb.pres, &twords, 4000) {
            Some(t) if t.rows() <= 400 => t.rows(),
            _ => {
                ctx.out_of_domain("subgroup-of-infinite-or-large-index");
                continue;
            }
        };
        ctx.eval();
        let fw = to_freewords(&words);
        let r = observe(|| from_dsym(&subgroup_cover(&to_partial_dsym(base), &fw)));
        let cov = match ctx.no_panic("covers::subgroup_cover", &input, r) {
            Some(c) => c,
            None => continue,
        };
        if let Some(sheets) = check_covering(ctx, "covers::subgroup_cover", &input, base, &cov) {
            if sheets != index {
                ctx.violation("sheets-differ-from-subgroup-index", "covers::subgroup_cover", input(), json!({"sheets": sheets, "index": index}), "one sheet per coset of the subgroup");
                continue;
            }
            // some sheet on which every generating word lifts to a closed path
            let (f, _) = cov.covering_map_onto(base).unwrap();
            let over1: Vec<usize> = (1..=cov.n).filter(|&c| f[c] == 1).collect();
            let closed_somewhere = over1.iter().any(|&c| {
                words.iter().all(|w| {
                    let mut x = c;
                    for g in w {
                        for &i in &paths[g] {
                            x = cov.op[i][x];
                        }
                    }
                    x == c
                })
            });
            if !closed_somewhere {
                ctx.violation("subgroup-generators-do-not-lift-to-closed-paths", "covers::subgroup_cover", input(), json!({"sheets": sheets}), "the cover belongs to (a conjugate of) the given subgroup");
                continue;
            }
            ctx.count("constructor.subgroup_cover");
            if sheets >= 2 {
                ctx.nontrivial(digest(&("sub", base, &words)));
            }
        }
    }
}

pub fn run(cfg: &Cfg) -> Report {
    let mut report = Report::new(cfg);
    let seed = cfg.seed;
    let mut bases: Vec<MSym> = vec![];
    for s in gen::connected_sets_upto(2, cfg.tier.pick(6, 7)) {
        if gen::adjacent_orbits(&s).len() <= 5 {
            gen::for_all_branchings(&s, &|_, _| vec![1, 2, 3], &mut |x| bases.push(x.clone()));
        }
    }
    let mut rng0 = Rng::stream(seed, 5);
    for s in gen::connected_sets_upto(3, cfg.tier.pick(3, 4)) {
        if gen::adjacent_orbits(&s).len() <= 3 {
            gen::for_all_branchings(&s, &|_, _| vec![1, 2, 3, 4], &mut |x| bases.push(x.clone()));
        } else {
            for _ in 0..cfg.tier.pick(40, 80) {
                let mut x = s.clone();
                for (i, _, members, _) in gen::adjacent_orbits(&s) {
                    let v = *rng0.pick(&[1usize, 1, 2, 3, 4]);
                    for e in members {
                        x.v[i][e] = v;
                    }
                }
                bases.push(x);
            }
        }
    }
    let kmax = cfg.tier.pick(5, 6);
    let ctx = par_items(cfg, &bases, |ctx, idx, b| {
        let mut rng = Rng::stream(seed, 0x05_0000 + idx as u64);
        judge_oriented(ctx, b);
        let k = if b.n * (b.dim + 1) <= 9 { kmax } else { kmax - 1 };
        if idx % cfg.tier.pick(2, 1) == 0 {
            judge_covers(ctx, b, k, 600_000);
        }
        if idx % 4 == 1 {
            judge_cover_for_table(ctx, b, k.min(4));
        }
        // finite groups: universal cover and subgroup covers
        let tb = pi1::textbook_pi1(b);
        if let Some(order) = groups::order(&tb.pres, cfg.tier.pick(300, 1200)) {
            if order * b.n <= cfg.tier.pick(400, 1000) {
                judge_universal(ctx, b, order);
                if idx % 2 == 0 {
                    judge_subgroup_cover(ctx, b, &mut rng, cfg.tier.pick(4, 12));
                }
            }
        } else if idx % 5 == 0 {
            judge_subgroup_cover(ctx, b, &mut rng, cfg.tier.pick(3, 8));
        }
        if idx % 1500 == 0 {
            ctx.sample(|| json!({"base": b.to_text(), "constructors": ["oriented_cover", "covers", "cover_for_table", "finite_universal_cover", "subgroup_cover"]}));
        }
    });
    report.absorb(ctx);

    // the symbols whose universal covers the repository's tests name (orders 24..384)
    let named = ["<1.1:1:1,1,1:3,3>", "<1.1:1:1,1,1:4,3>", "<1.1:1:1,1,1:3,5>", "<1.1:1 3:1,1,1,1:3,3,3>", "<1.1:1 3:1,1,1,1:4,3,3>", "<1.1:2 3:2,2,2,2:4,3,3>"];
    let orders = [24usize, 48, 120, 120, 384, 192];
    let nn = cfg.tier.pick(5, 6);
    let ctx = crate::monitor::par_range(cfg, nn, |ctx, k| {
        let b = msym_from_text(named[k]).unwrap();
        let tb = pi1::textbook_pi1(&b);
        if let Some(o) = groups::order(&tb.pres, 5000) {
            if k < 5 && o != orders[k] {
                ctx.inconclusive.push(format!("oracle order {} differs from the literature order {} for {}", o, orders[k], named[k]));
                return;
            }
            judge_universal(ctx, &b, o);
            let mut rng = Rng::stream(seed, 0x05_8000 + k as u64);
            // split into many small work items below for parallelism; here only a few
            judge_subgroup_cover(ctx, &b, &mut rng, 10);
        }
    });
    report.absorb(ctx);

    // many multi-generator, long-word subgroup covers of the larger finite groups (coincidence cascades)
    let heavy = ["<1.1:1:1,1,1:3,5>", "<1.1:1 3:1,1,1,1:3,3,3>", "<1.1:1 3:1,1,1,1:4,3,3>", "<1.1:2:2,1 2,1 2:2,5 5>"];
    let per = cfg.tier.pick(150, 600);
    let ctx = crate::monitor::par_range(cfg, heavy.len() * 60, |ctx, k| {
        let b = msym_from_text(heavy[k % heavy.len()]).unwrap();
        let mut rng = Rng::stream(seed, 0x05_a000 + k as u64);
        judge_subgroup_cover(ctx, &b, &mut rng, per);
    });
    report.absorb(ctx);
    // volume: every spherical 2D symbol on a connected set with <= 4 chambers and v <= 5 (finite groups of order up
    // to 120), many 1-3 generator subgroups each. Coincidence cascades in which the *second* of two merged rows
    // survives (union by rank) need an earlier merge on that row: about 1 in 50,000 random subgroups.
    let sph: Vec<MSym> = gen::symbols_2d(4, 5).into_iter().filter(|m| gen::is_spherical_2d(m) && (1..=m.n).any(|d| m.v[0][d] > 2 || m.v[1][d] > 2)).collect();
    let per_base = (cfg.tier.pick(1_500_000, 20_000_000) / sph.len().max(1)).max(20);
    let ctx = crate::monitor::par_range(cfg, sph.len() * 4, |ctx, k| {
        let mut rng = Rng::stream(seed, 0x05_c000 + k as u64);
        judge_subgroup_cover(ctx, &sph[k % sph.len()], &mut rng, per_base / 4);
        ctx.count("spherical_bases_with_many_subgroup_covers");
    });
    report.absorb(ctx);
    // rotation groups (oriented bases) at high sheet bounds
    let rot: Vec<(&str, usize)> = vec![("<1.1:2 3:2,2,2,2:3,4,4>", cfg.tier.pick(8, 9)), ("<1.1:8:5 3 8 7,2 4 6 8,5 6 7 8:4,6 4>", 7), ("<1.1:2:2,1 2,1 2:2,5 5>", 8), ("<1.1:4:2 4,3 4,2 4:4,4>", cfg.tier.pick(7, 8))];
    let ctx = crate::monitor::par_range(cfg, rot.len(), |ctx, k| {
        let b = msym_from_text(rot[k].0).unwrap();
        let ori = if b.is_oriented() { b.clone() } else { b.double_cover_by_cocycle(&|_, _| true) };
        if ori.is_valid_symbol() && ori.is_connected() {
            judge_covers(ctx, &ori, rot[k].1, 20_000_000);
            ctx.count("high_sheet_bound_cover_lists");
        }
    });
    report.absorb(ctx);

    // small finite groups at sheet bounds up to the order of the group, beyond 64 (dihedral and cyclic groups have
    // few subgroup classes, so the whole list is cheap): tables with more rows than a machine word has bits
    let wide: Vec<(String, usize)> = [33usize, 35, 40, 64, 65, 70].iter().flat_map(|&n| vec![(format!("<1.1:2:2,2,2:2,{}>", n), 2 * n), (format!("<1.1:1:1,1,1:2,{}>", n), 4 * n.min(40))]).collect();
    let ctx = crate::monitor::par_range(cfg, wide.len(), |ctx, k| {
        if let Some(b) = msym_from_text(&wide[k].0) {
            if b.is_valid_symbol() && b.is_connected() {
                judge_covers(ctx, &b, wide[k].1, 50_000_000);
                ctx.count("cover_lists_with_a_sheet_bound_beyond_64");
            }
        }
    });
    report.absorb(ctx);

    report.rule = "bases: all 2D symbols on connected sets <= 4 (thorough 5) chambers with v in 1..3 and 3D symbols <= 2 (thorough 3) chambers with v in 1..4, plus the spherical symbols named by the repository's tests; constructors: oriented_cover on every base, covers(base, k) for k = 3-5 compared as a multiset of brute-force canonical forms with covers the harness builds itself from its own list of transitive permutation representations of the textbook presentation, cover_for_table over the library's low-index tables, finite_universal_cover for every base whose group the harness Todd-Coxeter finds finite, subgroup_cover for random 1-2 generator subgroups of finite index. Non-trivial = cover with >= 2 sheets; distinct = digests of (constructor, base, arguments / cover)".into();
    report.explanation = "every returned cover: valid complete connected symbol and SOME covering map onto the base found by search over all images of chamber 1 (commutes with every operation, preserves every degree, constant fibre size) - the library's numbering convention is only recorded; constructor-specific clauses: orientedness and 1|2 sheets; sheets = order of the group and trivial fundamental group (enumeration of the cover's own textbook presentation); number of covers = number of subgroup classes and equal multisets of isomorphism types; sheets = subgroup index and all generating words lift to closed paths on some sheet".into();
    report.assume("subgroup covers use the textbook presentation relative to the library's own inner edges (C09 validates that these form a simply connected domain); sheet bound <= 5; finite groups only for universal covers");
    for c in ["oriented_cover", "covers", "cover_for_table", "finite_universal_cover", "subgroup_cover"] {
        report.require_counter(&format!("constructor.{}", c), 50);
    }
    report.require_counter("covers_multiset_compared_on_base_with_automorphisms", 1);
    report.require_counter("universal_cover_pi1_trivial_by_enumeration", 20);
    report
}

pub fn replay(ctx: &mut Ctx, input: &Value) -> bool {
    let base = match input.get("base").and_then(|x| x.as_str()).and_then(msym_from_text) {
        Some(b) => b,
        None => return false,
    };
    let mut rng = Rng::new(1);
    match input.get("constructor").and_then(|x| x.as_str()).unwrap_or("") {
        "oriented_cover" => judge_oriented(ctx, &base),
        "covers" => judge_covers(ctx, &base, input.get("max_sheets").and_then(|x| x.as_u64()).unwrap_or(3) as usize, 2_000_000),
        "cover_for_table" => judge_cover_for_table(ctx, &base, input.get("max_sheets").and_then(|x| x.as_u64()).unwrap_or(3) as usize),
        "finite_universal_cover" => {
            if let Some(o) = groups::order(&pi1::textbook_pi1(&base).pres, 5000) {
                judge_universal(ctx, &base, o);
            }
        }
        "subgroup_cover" => judge_subgroup_cover(ctx, &base, &mut rng, 200),
        _ => return false,
    }
    true
}
