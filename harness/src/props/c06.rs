//! C06 — the D-set generator enumerates every isomorphism class exactly once.

use crate::bridge::*;
use crate::gen;
use crate::monitor::{digest, observe, par_range, Cfg, Ctx, Report};
use crate::oracle::dsym::MSym;
use crate::rng::Rng;
use crate::shapes;
use rust_dsymbols::dsets::DSet;
use rust_dsymbols::generators::dset_generators::DSets;
use serde_json::{json, Value};
use std::collections::{BTreeMap, BTreeSet, HashSet};

/// Runs the generator and checks soundness and irredundancy of its output; returns the
/// canonical forms (brute force) of the outputs, or None on a panic.
pub fn generator_output(ctx: &mut Ctx, dim: usize, n: usize) -> Option<Vec<(MSym, Vec<usize>)>> {
    let input = || json!({"dim": dim, "max_size": n});
    ctx.eval();
    let r = observe(|| DSets::new(dim, n).map(|s| (s.set_count(), from_dset(&s))).collect::<Vec<_>>());
    let out = ctx.no_panic("DSets::new(dim,n).collect()", input, r)?;
    // the generator is an Iterator: whatever way the caller drives it (nth, skip, step_by, take in chunks,
    // last, fold ...) the items and their numbers must be those of the plain next() sequence
    {
        let key = |count: usize, m: &MSym| format!("#{} {}", count, m.to_text());
        let plain: Vec<String> = out.iter().map(|(c, m)| key(*c, m)).collect();
        let modes: Vec<usize> = if plain.len() <= 2500 { (0..shapes::CONSUME_MODES).collect() } else { vec![(dim * 31 + n) % shapes::CONSUME_MODES, (dim * 17 + n * 3 + 1) % shapes::CONSUME_MODES] };
        for mode in modes {
            let mut rng = Rng::stream((dim * 100 + n) as u64, mode as u64);
            ctx.eval();
            let r = observe(|| shapes::consume(DSets::new(dim, n), plain.len(), mode, &mut rng));
            match r {
                Ok(c) => {
                    ctx.count("consumption_modes_compared_with_plain_next");
                    ctx.add("items_taken_through_iterator_adaptors", c.taken.len() as u64);
                    if let Some(problem) = shapes::judge_consumed(&c, &plain, |s| key(s.set_count(), &from_dset(s))) {
                        ctx.violation("output-depends-on-how-the-iterator-is-driven", "DSets as Iterator", json!({"dim": dim, "max_size": n, "mode": c.mode}), json!(problem), "the same D-sets with the same consecutive numbers whichever Iterator methods the caller uses");
                    }
                }
                Err(p) => ctx.violation(&format!("panic@{}", p.short_loc()), "DSets as Iterator", json!({"dim": dim, "max_size": n, "mode": mode}), p.to_json(), "no panic"),
            }
        }
    }
    let mut result = vec![];
    let mut seen: BTreeMap<Vec<usize>, usize> = BTreeMap::new();
    for (k, (count, m)) in out.iter().enumerate() {
        ctx.eval();
        let mut problem: Option<String> = None;
        if *count != k + 1 {
            problem = Some(format!("set_count {} at position {}", count, k + 1));
        } else if m.dim != dim || m.n < 1 || m.n > n {
            problem = Some(format!("dimension {} / size {} outside the request", m.dim, m.n));
        } else if !m.is_complete_set() || !m.ops_are_involutions() {
            problem = Some("not a complete set of involutions".into());
        } else if !m.far_ops_commute() {
            problem = Some("operations with indices differing by more than one do not commute".into());
        } else if !m.is_connected() {
            problem = Some("not connected".into());
        }
        if let Some(p) = problem {
            ctx.violation("generated-set-invalid", "DSets", input(), json!({"position": k + 1, "ops": m.op, "problem": p}), "connected complete D-sets with commuting far operations, numbered consecutively from 1");
            continue;
        }
        let c = m.canon_bf();
        if let Some(prev) = seen.insert(c.clone(), k + 1) {
            ctx.violation("two-generated-sets-are-isomorphic", "DSets", input(), json!({"positions": [prev, k + 1], "set": m.to_text()}), "no two of them are isomorphic");
        }
        result.push((m.clone(), c));
    }
    Some(result)
}

pub fn run(cfg: &Cfg) -> Report {
    let mut report = Report::new(cfg);
    let seed = cfg.seed;

    // (A) exhaustive comparison with brute force over all involution tuples
    let bounds: Vec<(usize, usize)> = cfg.tier.pick(vec![(1, 9), (2, 8), (3, 6), (4, 5)], vec![(1, 10), (2, 8), (3, 7), (4, 5)]);
    let mut jobs: Vec<(usize, usize)> = vec![];
    for &(dim, nmax) in &bounds {
        for n in 1..=nmax {
            jobs.push((dim, n));
        }
    }
    // brute-force classes per (dim, exact size), computed in parallel
    let ctx = par_range(cfg, jobs.len(), |ctx, j| {
        let (dim, n) = jobs[j];
        let mut classes: HashSet<Vec<usize>> = HashSet::new();
        let mut tuples = 0u64;
        gen::for_all_sets(dim, n, &mut |s| {
            tuples += 1;
            if s.is_connected() {
                classes.insert(s.canon_bf());
            }
        });
        ctx.add("brute_force_involution_tuples", tuples);
        // generator with bound n restricted to size exactly n must give exactly these classes;
        // sizes < n are covered by the jobs for smaller n plus the prefix-consistency clause below
        if let Some(out) = generator_output(ctx, dim, n) {
            let got: BTreeSet<Vec<usize>> = out.iter().filter(|(m, _)| m.n == n).map(|(_, c)| c.clone()).collect();
            let want: BTreeSet<Vec<usize>> = classes.iter().cloned().collect();
            let missing: Vec<&Vec<usize>> = want.difference(&got).collect();
            let extra: Vec<&Vec<usize>> = got.difference(&want).collect();
            if !missing.is_empty() {
                ctx.violation(
                    "generator-misses-an-isomorphism-class",
                    "DSets",
                    json!({"dim": dim, "max_size": n}),
                    json!({"missing_classes": missing.len(), "example_canonical_code": missing[0]}),
                    "every connected complete D-set with commuting far operations is isomorphic to a generated one",
                );
            }
            if !extra.is_empty() {
                ctx.violation("generator-yields-a-class-brute-force-does-not", "DSets", json!({"dim": dim, "max_size": n}), json!({"extra": extra.len()}), "only valid sets");
            }
            // prefix consistency: outputs of size < n equal outputs of DSets(dim, n-1) as sets of classes
            if n >= 2 {
                let mut c2 = Ctx::new();
                if let Some(prev) = generator_output(&mut c2, dim, n - 1) {
                    let a: BTreeSet<Vec<usize>> = out.iter().filter(|(m, _)| m.n < n).map(|(_, c)| c.clone()).collect();
                    let b: BTreeSet<Vec<usize>> = prev.iter().map(|(_, c)| c.clone()).collect();
                    if a != b {
                        ctx.violation("size-bound-changes-smaller-outputs", "DSets", json!({"dim": dim, "max_size": n}), json!({"smaller_with_bound_n": a.len(), "all_with_bound_n_minus_1": b.len()}), "the sets below the bound do not depend on the bound");
                    }
                }
            }
            ctx.add(&format!("classes.dim{}", dim), want.len() as u64);
            if n >= 3 {
                for c in &want {
                    ctx.nontrivial(digest(c));
                }
            }
            ctx.sample(|| json!({"dim": dim, "size": n, "classes_by_brute_force": want.len(), "generated_of_that_size": got.len()}));
        }
        ctx.count("exhaustive_jobs");
    });
    report.absorb(ctx);

    // (B) beyond the brute-force bound: validity, irredundancy, and membership of derived sets
    let big: Vec<(usize, usize)> = cfg.tier.pick(vec![(2, 11), (3, 10), (4, 7)], vec![(2, 14), (3, 12), (4, 9)]);
    for (dim, n) in big {
        let mut ctx = Ctx::new();
        if let Some(out) = generator_output(&mut ctx, dim, n) {
            ctx.absorb_hooks();
            let classes: HashSet<Vec<usize>> = out.iter().map(|(_, c)| c.clone()).collect();
            let mut rng = Rng::stream(seed, 0x06_0000 + (dim * 100 + n) as u64);
            // derived sets: renumberings, orientation double covers and quotients of outputs
            let mut derived = 0u64;
            for (m, _) in out.iter().step_by(out.len().max(1000) / 1000) {
                let mut cands: Vec<MSym> = vec![m.renumbered(&rng.perm1(m.n))];
                let c = m.double_cover_by_cocycle(&|_, _| true);
                if c.n <= n && c.is_connected() {
                    cands.push(MSym::from_ops(c.dim, c.n, c.op.clone()));
                }
                let q = m.minimal_image();
                cands.push(MSym::from_ops(q.dim, q.n, q.op.clone()));
                for d in cands {
                    if d.is_connected() && d.far_ops_commute() && d.n <= n {
                        derived += 1;
                        ctx.eval();
                        if !classes.contains(&d.canon_bf()) {
                            ctx.violation("derived-set-not-generated", "DSets", json!({"dim": dim, "max_size": n}), json!({"set": d.to_text()}), "every valid set within the bound is isomorphic to a generated one");
                        }
                    }
                }
            }
            // random connected commuting tuples found by rejection sampling
            let mut found = 0;
            let mut attempts = 0;
            while found < 300 && attempts < 2_000_000 {
                attempts += 1;
                let sz = 2 + rng.below(n - 1);
                let invs: Vec<Vec<usize>> = (0..=dim)
                    .map(|_| {
                        let mut img: Vec<usize> = (0..=sz).collect();
                        let mut free: Vec<usize> = (1..=sz).collect();
                        rng.shuffle(&mut free);
                        while free.len() >= 2 {
                            if rng.chance(1, 4) {
                                free.pop();
                            } else {
                                let a = free.pop().unwrap();
                                let b = free.pop().unwrap();
                                img[a] = b;
                                img[b] = a;
                            }
                        }
                        img
                    })
                    .collect();
                let s = MSym::from_ops(dim, sz, invs);
                if s.far_ops_commute() && s.is_connected() {
                    found += 1;
                    ctx.eval();
                    if !classes.contains(&s.canon_bf()) {
                        ctx.violation("random-valid-set-not-generated", "DSets", json!({"dim": dim, "max_size": n}), json!({"set": s.to_text()}), "every valid set within the bound is isomorphic to a generated one");
                    }
                }
            }
            ctx.add("derived_membership_checks", derived + found as u64);
            ctx.add(&format!("generated.dim{}.n{}", dim, n), out.len() as u64);
        }
        report.absorb(ctx);
    }

    report.rule = format!("exhaustive: generator output for every (dim, n) with (dim, max n) in {:?} compared as a set of brute-force canonical forms with ALL tuples of involutions on 1..n (connected, far operations commuting); beyond: validity, pairwise non-isomorphism, prefix consistency between bounds n and n-1, and membership of renumbered outputs, their orientation double covers, their quotients and of random valid sets found by rejection sampling. Non-trivial = isomorphism class with >= 3 chambers; distinct = distinct canonical forms", bounds);
    report.explanation = "soundness, irredundancy and completeness judged against definition-level enumeration of all involution tuples, canonical forms by trying every start chamber".into();
    report.exhaustive = true;
    report.note("exhaustive_subuniverses", json!(bounds.iter().map(|(d, n)| format!("dimension {}: all sizes <= {}", d, n)).collect::<Vec<_>>()));
    report.assume("completeness beyond the brute-force bound is only sampled (derived and random valid sets)");
    report.require_counter("exhaustive_jobs", jobs.len() as u64);
    report.require_counter("derived_membership_checks", 300);
    report.require_hook("dsets_gen.contradiction", 1);
    report.require_hook("dsets_gen.noncanonical", 1);
    report.require_hook("dsets_gen.implication", 1);
    report
}

pub fn replay(ctx: &mut Ctx, input: &Value) -> bool {
    let dim = input.get("dim").and_then(|x| x.as_u64());
    let n = input.get("max_size").and_then(|x| x.as_u64());
    if let (Some(dim), Some(n)) = (dim, n) {
        let (dim, n) = (dim as usize, n as usize);
        if let Some(out) = generator_output(ctx, dim, n) {
            if n <= 7 {
                let mut classes: HashSet<Vec<usize>> = HashSet::new();
                for k in 1..=n {
                    gen::for_all_sets(dim, k, &mut |s| {
                        if s.is_connected() {
                            classes.insert(s.canon_bf());
                        }
                    });
                }
                let got: HashSet<Vec<usize>> = out.iter().map(|(_, c)| c.clone()).collect();
                if got != classes {
                    ctx.violation("generator-misses-an-isomorphism-class", "DSets", input.clone(), json!({"generated": got.len(), "brute_force": classes.len()}), "equal sets of classes");
                }
            }
        }
        return true;
    }
    false
}
