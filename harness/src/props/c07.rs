//! C07 — the D-symbol generator is sound, complete and irredundant per geometry.

use crate::bridge::*;
use crate::gen;
use crate::monitor::{digest, observe, par_items, Cfg, Ctx, Report};
use crate::oracle::dsym::MSym;
use crate::oracle::frac::Frac;
use crate::oracle::orbifold;
use crate::rng::Rng;
use crate::shapes;
use rust_dsymbols::dsets::DSet;
use rust_dsymbols::generators::dsym_generators::{DSyms, Geometries};
use serde_json::{json, Value};
use std::collections::BTreeSet;

/// The list of good spherical orbifolds quoted from the property's anchor
/// (generators/dsym_generators.rs, `is_good`).
pub const GOOD_SPHERICAL: &[&str] = &[
    "", "*", "x", "532", "432", "332", "422", "322", "222", "44", "33", "22", "*532", "*432", "*332", "3*2", "*422", "*322", "*222", "2*4", "2*3", "2*2", "*44", "*33", "*22", "4*", "3*", "2*", "4x", "3x",
    "2x",
];

const VMAX_REFERENCE: usize = 9;

struct Orbits {
    list: Vec<(usize, Vec<usize>, usize)>, // (index i, members, r)
    vmin: Vec<usize>,
    k: Vec<i128>, // 2 if loopless else 1
}

fn orbits_of(s: &MSym) -> Orbits {
    let mut list = vec![];
    let mut vmin = vec![];
    let mut k = vec![];
    for (i, _, members, r) in gen::adjacent_orbits(s) {
        let loopless = members.iter().all(|&e| s.op[i][e] != e && s.op[i + 1][e] != e);
        vmin.push(match r {
            1 => 3,
            2 => 2,
            _ => 1,
        });
        k.push(if loopless { 2 } else { 1 });
        list.push((i, members, r));
    }
    Orbits { list, vmin, k }
}

fn with_vs(s: &MSym, o: &Orbits, vs: &[usize]) -> MSym {
    let mut m = s.clone();
    for (t, (i, members, _)) in o.list.iter().enumerate() {
        for &e in members {
            m.v[*i][e] = vs[t];
        }
    }
    m
}

/// curvature as a function of vs: base + sum k_t / v_t, where base is computed once exactly
fn curv(o: &Orbits, base: Frac, vs: &[usize]) -> Frac {
    let mut k = base;
    for t in 0..vs.len() {
        k = k.add(Frac::new(o.k[t], vs[t] as i128));
    }
    k
}

/// canonical representative of a branching vector under the automorphisms of the set
fn canonical_vs(vs: &[usize], orbit_perms: &[Vec<usize>]) -> Vec<usize> {
    orbit_perms.iter().map(|p| (0..vs.len()).map(|t| vs[p[t]]).collect::<Vec<usize>>()).min().unwrap()
}

pub struct Reference {
    pub euclidean: BTreeSet<Vec<usize>>,
    pub hyperbolic: BTreeSet<Vec<usize>>,
    pub spherical: BTreeSet<Vec<usize>>,
    pub assignments_evaluated: u64,
}

pub fn reference(s: &MSym) -> (Orbits_, Reference) {
    reference_opt(s, true)
}

/// `enumerate = false`: only the orbit structure and the automorphisms (for sets with too many 2-orbits for the
/// reference enumeration; outputs are then judged for validity and irredundancy only).
pub fn reference_opt(s: &MSym, enumerate: bool) -> (Orbits_, Reference) {
    let o = orbits_of(s);
    let n_orb = o.list.len();
    // automorphisms of the D-set acting on the orbit list
    let plain = MSym::from_ops(s.dim, s.n, s.op.clone());
    let autos = plain.automorphisms();
    let orbit_of = |i: usize, d: usize| o.list.iter().position(|(j, mem, _)| *j == i && mem.contains(&d)).unwrap();
    let orbit_perms: Vec<Vec<usize>> = autos.iter().map(|f| (0..n_orb).map(|t| orbit_of(o.list[t].0, f[o.list[t].1[0]])).collect()).collect();
    // base = curvature with all the adjacent-orbit terms removed
    let all_min = with_vs(s, &o, &o.vmin);
    let mut base = orbifold::curvature(&all_min);
    for t in 0..n_orb {
        base = base.sub(Frac::new(o.k[t], o.vmin[t] as i128));
    }
    let mut r = Reference { euclidean: BTreeSet::new(), hyperbolic: BTreeSet::new(), spherical: BTreeSet::new(), assignments_evaluated: 0 };
    let minus_one = Frac::int(-1);
    let mut classify = |vs: &[usize], r: &mut Reference| {
        r.assignments_evaluated += 1;
        let k = curv(&o, base, vs);
        if k.is_zero() {
            r.euclidean.insert(canonical_vs(vs, &orbit_perms));
        } else if k.sign() < 0 {
            // minimal: lowering any single v that may be lowered gives K >= 0
            let mut minimal = true;
            for t in 0..n_orb {
                if vs[t] > o.vmin[t] {
                    let mut w = vs.to_vec();
                    w[t] -= 1;
                    if curv(&o, base, &w).sign() < 0 {
                        minimal = false;
                        break;
                    }
                }
            }
            if minimal {
                r.hyperbolic.insert(canonical_vs(vs, &orbit_perms));
            }
        } else if vs.iter().all(|&v| v <= 7) {
            let sym = with_vs(s, &o, vs);
            let key = orbifold::orbifold(&sym).generator_key();
            if GOOD_SPHERICAL.contains(&key.as_str()) {
                r.spherical.insert(canonical_vs(vs, &orbit_perms));
            }
        }
    };
    if !enumerate {
        return (Orbits_ { inner: o, orbit_perms }, r);
    }
    // the all-minimal assignment is always evaluated
    classify(&o.vmin.clone(), &mut r);
    // depth-first over the orbits; prune when even with all remaining orbits at their minimum
    // the curvature is below -1 (no euclidean, spherical or minimally hyperbolic completion
    // other than all-minimal exists there)
    fn rec(t: usize, vs: &mut Vec<usize>, o: &Orbits, base: Frac, minus_one: Frac, f: &mut dyn FnMut(&[usize])) {
        if t == vs.len() {
            if vs.iter().zip(o.vmin.iter()).any(|(a, b)| a != b) {
                f(vs);
            }
            return;
        }
        for v in o.vmin[t]..=VMAX_REFERENCE {
            vs[t] = v;
            // upper bound of the curvature over all completions: later orbits at their minimum
            let mut upper = vs[..=t].to_vec();
            upper.extend_from_slice(&o.vmin[t + 1..]);
            if curv(o, base, &upper) < minus_one {
                break; // raising v further only lowers the curvature
            }
            rec(t + 1, vs, o, base, minus_one, f);
        }
        vs[t] = o.vmin[t];
    }
    let mut vs = o.vmin.clone();
    let mut sink = |w: &[usize]| classify(w, &mut r);
    rec(0, &mut vs, &o, base, minus_one, &mut sink);
    (Orbits_ { inner: o, orbit_perms }, r)
}

pub struct Orbits_ {
    inner: Orbits,
    orbit_perms: Vec<Vec<usize>>,
}

fn geometry_name(g: usize) -> &'static str {
    ["spherical", "euclidean", "hyperbolic", "all"][g]
}

fn geometry(g: usize) -> Geometries {
    [Geometries::Spherical, Geometries::Euclidean, Geometries::Hyperbolic, Geometries::All][g]
}

/// Judges all four geometry settings for one D-set (given through `as_generated` or as a rebuilt SimpleDSet).
pub fn judge_set(ctx: &mut Ctx, s: &MSym, origin: &str) {
    judge_set_opt(ctx, s, origin, true)
}

/// `complete = false`: validity, numbering, irredundancy, the union clause and the iterator contract only.
pub fn judge_set_opt(ctx: &mut Ctx, s: &MSym, origin: &str, complete: bool) {
    let (orb, refr) = reference_opt(s, complete);
    let o = &orb.inner;
    ctx.add("reference_assignments_evaluated", refr.assignments_evaluated);
    let dset = to_simple_dset(s);
    let mut per_geometry: Vec<BTreeSet<Vec<usize>>> = vec![];
    for g in 0..4 {
        let input = || json!({"set": s.to_text(), "geometry": geometry_name(g), "origin": origin});
        ctx.eval();
        let cap = if complete { usize::MAX } else { 4000 };
        let r = observe(|| DSyms::new(&dset, geometry(g)).take(cap).map(|y| (y.symbol_count(), from_dsym(&y))).collect::<Vec<_>>());
        let out = match ctx.no_panic("DSyms::new(set, geometry).collect()", input, r) {
            Some(o) => o,
            None => {
                per_geometry.push(BTreeSet::new());
                continue;
            }
        };
        // the generator is an Iterator: the symbols and their numbers must not depend on how it is driven
        {
            let key = |count: usize, y: &MSym| format!("#{} {}", count, y.to_text());
            let plain: Vec<String> = out.iter().map(|(c, y)| key(*c, y)).collect();
            let h = digest(&(s, g));
            for mode in [(h % shapes::CONSUME_MODES as u64) as usize, ((h >> 8) % shapes::CONSUME_MODES as u64) as usize] {
                if plain.len() > 5000 {
                    break;
                }
                let mut rng = Rng::stream(h, mode as u64);
                ctx.eval();
                match observe(|| shapes::consume(DSyms::new(&dset, geometry(g)).take(cap), plain.len(), mode, &mut rng)) {
                    Ok(c) => {
                        ctx.count("consumption_modes_compared_with_plain_next");
                        if let Some(problem) = shapes::judge_consumed(&c, &plain, |y| key(y.symbol_count(), &from_dsym(y))) {
                            ctx.violation("output-depends-on-how-the-iterator-is-driven", "DSyms as Iterator", json!({"set": s.to_text(), "geometry": geometry_name(g), "mode": c.mode}), json!(problem), "the same symbols with the same consecutive numbers whichever Iterator methods the caller uses");
                        }
                    }
                    Err(p) => ctx.violation(&format!("panic@{}", p.short_loc()), "DSyms as Iterator", json!({"set": s.to_text(), "geometry": geometry_name(g), "mode": mode}), p.to_json(), "no panic"),
                }
            }
        }
        let mut got: BTreeSet<Vec<usize>> = BTreeSet::new();
        for (pos, (count, y)) in out.iter().enumerate() {
            let mut problem: Option<String> = None;
            if *count != pos + 1 {
                problem = Some(format!("symbol_count {} at position {}", count, pos + 1));
            } else if y.op != s.op || y.n != s.n || y.dim != 2 {
                problem = Some("operations differ from the input set".into());
            } else if !y.v_consistent() {
                problem = Some("branching undefined or not constant on an orbit".into());
            } else if (0..2).any(|i| (1..=y.n).any(|d| y.m(i, i + 1, d) < 3)) {
                problem = Some("a degree below 3".into());
            } else {
                let k = orbifold::curvature(y).sign();
                let ok = match g {
                    0 => k > 0,
                    1 => k == 0,
                    2 => k < 0,
                    _ => true,
                };
                if !ok {
                    problem = Some(format!("curvature sign {} does not match the requested geometry", k));
                }
            }
            if let Some(p) = problem {
                ctx.violation("generated-symbol-invalid", "DSyms", input(), json!({"position": pos + 1, "symbol": y.to_text(), "problem": p}), "complete symbols on exactly that set, all degrees >= 3, curvature of the requested sign, numbered consecutively");
                continue;
            }
            let vs: Vec<usize> = o.list.iter().map(|(i, mem, _)| y.v[*i][mem[0]]).collect();
            let c = canonical_vs(&vs, &orb.orbit_perms);
            if !got.insert(c) {
                ctx.violation("two-generated-symbols-are-isomorphic", "DSyms", input(), json!({"position": pos + 1, "symbol": y.to_text()}), "no two of them isomorphic");
            }
        }
        let want: BTreeSet<Vec<usize>> = match g {
            0 => refr.spherical.clone(),
            1 => refr.euclidean.clone(),
            2 => refr.hyperbolic.clone(),
            _ => refr.spherical.union(&refr.euclidean).cloned().collect::<BTreeSet<_>>().union(&refr.hyperbolic).cloned().collect(),
        };
        if complete && got != want {
            let missing: Vec<&Vec<usize>> = want.difference(&got).collect();
            let extra: Vec<&Vec<usize>> = got.difference(&want).collect();
            let show = |vs: &Vec<usize>| with_vs(s, o, vs).to_text();
            ctx.violation(
                &format!("{}-output-differs-from-reference-enumeration", geometry_name(g)),
                "DSyms",
                input(),
                json!({"missing": missing.iter().take(3).map(|v| show(v)).collect::<Vec<_>>(), "missing_count": missing.len(), "unexpected": extra.iter().take(3).map(|v| show(v)).collect::<Vec<_>>(), "unexpected_count": extra.len()}),
                "output = reference set of branching assignments up to automorphisms of the D-set",
            );
        }
        if !got.is_empty() {
            ctx.count(&format!("nonempty.{}", geometry_name(g)));
        }
        ctx.add(&format!("symbols.{}", geometry_name(g)), got.len() as u64);
        per_geometry.push(got);
    }
    // 'all' is the disjoint union of the three
    if per_geometry.len() == 4 && (complete || per_geometry.iter().all(|g| g.len() < 4000)) {
        let total = per_geometry[0].len() + per_geometry[1].len() + per_geometry[2].len();
        let union: BTreeSet<Vec<usize>> = per_geometry[0].iter().chain(per_geometry[1].iter()).chain(per_geometry[2].iter()).cloned().collect();
        if union.len() != total || union != per_geometry[3] {
            ctx.violation("all-is-not-the-disjoint-union", "DSyms", json!({"set": s.to_text(), "origin": origin}), json!({"spherical": per_geometry[0].len(), "euclidean": per_geometry[1].len(), "hyperbolic": per_geometry[2].len(), "all": per_geometry[3].len()}), "the 'all' output is the disjoint union of the three");
        }
        let nonempty = (0..3).filter(|&g| !per_geometry[g].is_empty()).count();
        if nonempty >= 2 || (o.list.len() >= 2 && orb.orbit_perms.len() > 1) {
            ctx.nontrivial(digest(&("c07", s)));
        }
    }
    ctx.count("sets_judged");
}

pub fn run(cfg: &Cfg) -> Report {
    let mut report = Report::new(cfg);
    let seed = cfg.seed;
    let nmax = cfg.tier.pick(8, 9);
    let mut sets: Vec<(MSym, String)> = gen::connected_sets_upto(2, nmax).into_iter().map(|s| (s, "brute-force representative".to_string())).collect();
    // the same sets as the D-set generator numbers them, and renumbered copies
    let gen_sets: Vec<MSym> = observe(|| rust_dsymbols::generators::dset_generators::DSets::new(2, nmax.min(6)).map(|s| from_dset(&s)).collect::<Vec<_>>()).unwrap_or_default();
    let mut rng = Rng::stream(seed, 7);
    let extra: Vec<(MSym, String)> = sets.iter().step_by(cfg.tier.pick(3, 2)).map(|(s, _)| (s.renumbered(&rng.perm1(s.n)), "renumbered".to_string())).collect();
    sets.extend(extra);
    sets.extend(gen_sets.into_iter().filter(|m| m.is_complete_set() && m.ops_are_involutions()).map(|m| (m, "DSets output".to_string())));
    // large structured sets: flags of polyhedra, projective-plane maps, torus maps (curvature 4, 2, 0 at v = 1)
    for (name, s) in gen::structured_2d_sets() {
        if gen::adjacent_orbits(&s).len() <= cfg.tier.pick(14, 40) {
            sets.push((s, name.to_string()));
        }
    }
    // prisms: 12p flags, 3p + 2 two-orbits (p = 7: 23, p = 8: 26). Too many orbits for the reference enumeration:
    // judged for validity, numbering, irredundancy under the automorphism group (4p elements), union clause
    let mut big_sets: Vec<(MSym, String)> = vec![];
    // (larger prisms were not timed: one of the 9- and 11-gonal ones kept a worker busy for more than 6 minutes)
    for p in cfg.tier.pick(vec![7usize, 8], vec![5, 6, 7, 8]) {
        big_sets.push((gen::prism_flags(p), format!("flags of the {}-gonal prism", p)));
    }
    let ctx = par_items(cfg, &big_sets, |ctx, _, (s, origin)| {
        judge_set_opt(ctx, s, origin, false);
        ctx.count("sets_with_more_than_21_two_orbits_judged_without_reference");
    });
    report.absorb(ctx);
    // biggest first for load balance
    sets.sort_by_key(|(s, _)| std::cmp::Reverse(gen::adjacent_orbits(s).len()));
    let ctx = par_items(cfg, &sets, |ctx, k, (s, origin)| {
        judge_set(ctx, s, origin);
        if k % 97 == 0 {
            ctx.sample(|| json!({"set": s.to_text(), "origin": origin}));
        }
    });
    report.absorb(ctx);

    report.rule = format!("every connected 2D D-set with <= {} chambers (brute-force representatives, renumbered copies, and the DSets generator's own numbering) x four geometry settings; reference sets by enumerating every branching assignment v in [vmin, {}] per 2-orbit (pruned only by monotonicity of the curvature and by K < -1 for non-minimal assignments) modulo the brute-force automorphism group of the set. Non-trivial = set with non-empty output in >= 2 geometries, or with >= 2 two-orbits and a non-trivial automorphism group; distinct = distinct set digests", nmax, VMAX_REFERENCE);
    report.explanation = "each output judged for validity (same operations, all degrees >= 3, exact rational curvature of the requested sign, consecutive numbering), irredundancy (no two outputs related by a D-set automorphism) and completeness (output = reference set per geometry; 'all' = disjoint union)".into();
    report.exhaustive = true;
    report.note("exhaustive_subuniverses", json!([format!("all connected 2D D-sets with <= {} chambers", nmax)]));
    report.assume("the list of 31 good spherical orbifolds is taken as given by the property; branching numbers above 9 are not explored by the reference (a minimally hyperbolic or euclidean assignment with v > 7 would already show as a discrepancy at 8 or 9)");
    report.require_counter("sets_judged", 100);
    report.require_counter("nonempty.spherical", 20);
    report.require_counter("nonempty.euclidean", 20);
    report.require_counter("nonempty.hyperbolic", 20);
    report.require_hook("dsyms_gen.not_good", 1);
    report.require_hook("dsyms_gen.noncanonical", 1);
    report.require_hook("dsyms_gen.hyperbolic_cutoff", 1);
    report
}

pub fn replay(ctx: &mut Ctx, input: &Value) -> bool {
    if let Some(t) = input.get("set").and_then(|x| x.as_str()) {
        // sets are stored in the model's text form with all degrees = r (v = 1)
        if let Some(m) = msym_from_text(t) {
            let plain = MSym::from_ops(m.dim, m.n, m.op.clone());
            judge_set(ctx, &plain, input.get("origin").and_then(|x| x.as_str()).unwrap_or(""));
            return true;
        }
    }
    false
}
