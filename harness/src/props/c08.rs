//! C08 — 2D curvature, orbifold symbol and geometry class are mutually consistent.

use crate::bridge::*;
use crate::gen;
use crate::monitor::{digest, observe, par_items, Cfg, Ctx, Report};
use crate::oracle::dsym::MSym;
use crate::oracle::frac::Frac;
use crate::oracle::orbifold::{self, Orbifold};
use crate::rng::Rng;
use rust_dsymbols::delaney2d::{curvature, is_euclidean, is_hyperbolic, is_spherical, orbifold_symbol};
use rust_dsymbols::derived::dual;
use serde_json::{json, Value};

#[derive(Debug)]
pub struct Lib {
    pub curvature: Frac,
    pub symbol: String,
    pub euclidean: bool,
    pub hyperbolic: bool,
    pub spherical: bool,
}

fn query(m: &MSym, simple: bool) -> Result<Lib, crate::monitor::PanicInfo> {
    observe(|| {
        if simple {
            let ds = to_simple_dsym(m);
            let c = curvature(&ds);
            Lib { curvature: Frac::new(*c.numer() as i128, *c.denom() as i128), symbol: orbifold_symbol(&ds), euclidean: is_euclidean(&ds), hyperbolic: is_hyperbolic(&ds), spherical: is_spherical(&ds) }
        } else {
            let ds = to_partial_dsym(m);
            let c = curvature(&ds);
            Lib { curvature: Frac::new(*c.numer() as i128, *c.denom() as i128), symbol: orbifold_symbol(&ds), euclidean: is_euclidean(&ds), hyperbolic: is_hyperbolic(&ds), spherical: is_spherical(&ds) }
        }
    })
}

/// Judges one symbol on its own; returns what the library said (for the metamorphic clauses).
pub fn judge_one(ctx: &mut Ctx, m: &MSym, k: usize) -> Option<(Lib, Orbifold)> {
    let input = || json!({"symbol": m.to_text()});
    ctx.eval();
    let lib = ctx.no_panic("delaney2d::{curvature,orbifold_symbol,is_*}", input, query(m, k % 2 == 1))?;
    let k_model = orbifold::curvature(m);
    let orb = orbifold::orbifold(m);
    if lib.curvature != k_model {
        ctx.violation("curvature-differs-from-definition", "delaney2d::curvature", input(), json!({"got": lib.curvature.to_string(), "expected": k_model.to_string()}), "sum over 2-orbits of (2|1)/v minus size");
    }
    match orbifold::parse_symbol(&lib.symbol) {
        None => ctx.violation("orbifold-symbol-unreadable", "delaney2d::orbifold_symbol", input(), json!({"symbol": lib.symbol}), "a Conway-style orbifold symbol"),
        Some(p) => {
            let chi2 = p.euler().mul(Frac::int(2));
            if chi2 != lib.curvature {
                ctx.violation(
                    "gauss-bonnet",
                    "delaney2d::{curvature,orbifold_symbol}",
                    input(),
                    json!({"orbifold_symbol": lib.symbol, "twice_euler_characteristic": chi2.to_string(), "curvature": lib.curvature.to_string()}),
                    "curvature = 2 x Euler characteristic of the orbifold named by the symbol",
                );
            }
            if p.cones == orb.cones && p.boundaries == orb.boundaries && p.handles == orb.handles && p.crosscaps == orb.crosscaps && p.oriented != orb.oriented {
                ctx.violation(
                    "boundary-components-read-in-inconsistent-directions",
                    "delaney2d::orbifold_symbol",
                    input(),
                    json!({"orbifold_symbol": lib.symbol, "model_components_with_the_surface_on_the_left": format!("{:?}", orb.oriented)}),
                    "on an orientable orbifold all boundary components are read with the same orientation of the surface (the symbol is determined up to reversing ALL of them)",
                );
            }
            if p.cones != orb.cones || p.boundaries != orb.boundaries || p.handles != orb.handles || p.crosscaps != orb.crosscaps {
                ctx.violation(
                    "orbifold-symbol-differs-from-model-orbifold",
                    "delaney2d::orbifold_symbol",
                    input(),
                    json!({"orbifold_symbol": lib.symbol, "model": format!("{:?}", orb)}),
                    "cone multiset, boundary components up to rotation and reversal, handles / cross-caps as computed from the definitions",
                );
            }
        }
    }
    let sign = k_model.sign();
    let want_sph = sign > 0 && !orb.is_bad();
    if lib.euclidean != (sign == 0) || lib.hyperbolic != (sign < 0) || lib.spherical != want_sph {
        ctx.violation(
            "geometry-predicates",
            "delaney2d::{is_euclidean,is_hyperbolic,is_spherical}",
            input(),
            json!({"euclidean": lib.euclidean, "hyperbolic": lib.hyperbolic, "spherical": lib.spherical, "curvature": k_model.to_string(), "bad_orbifold": orb.is_bad(), "orbifold_symbol": lib.symbol}),
            "euclidean iff K = 0, hyperbolic iff K < 0, spherical iff K > 0 and the orbifold is not a tear-drop / spindle (or their mirrored forms)",
        );
    }
    // evidence classes
    let kind = match (orb.orientable, !orb.boundaries.is_empty()) {
        (true, false) => "orientable_closed",
        (true, true) => "orientable_with_boundary",
        (false, false) => "nonorientable_closed",
        (false, true) => "nonorientable_with_boundary",
    };
    ctx.count(&format!("topology.{}", kind));
    ctx.count(match sign {
        0 => "geometry.euclidean",
        x if x < 0 => "geometry.hyperbolic",
        _ => {
            if orb.is_bad() {
                "geometry.bad_orbifold"
            } else {
                "geometry.spherical"
            }
        }
    });
    if orb.cones.iter().chain(orb.boundaries.iter().flatten()).any(|&c| c >= 10) {
        ctx.count("two_digit_cone_or_corner");
    }
    if !orb.boundaries.is_empty() || !orb.orientable || orb.cones.iter().any(|&c| c >= 10) {
        ctx.nontrivial(digest(m));
    }
    Some((lib, orb))
}

pub fn judge(ctx: &mut Ctx, m: &MSym, perms: &[Vec<usize>], k: usize) {
    let (lib, _) = match judge_one(ctx, m, k) {
        Some(x) => x,
        None => return,
    };
    let base_parsed = orbifold::parse_symbol(&lib.symbol);
    // no chiral boundary component: "up to reversal" leaves no freedom, the text itself must not change
    let achiral = base_parsed.as_ref().map_or(false, |p| p.boundaries.iter().all(|c| !orbifold::is_chiral(c)));
    if achiral {
        ctx.count("symbols_without_chiral_boundary_component");
    } else if base_parsed.as_ref().map_or(false, |p| p.oriented.is_some() && p.boundaries.len() >= 2) {
        ctx.count("orientable_with_two_or_more_boundary_components_one_chiral");
    }
    // renumberings
    for p in perms {
        let mp = m.renumbered(p);
        ctx.eval();
        match query(&mp, k % 3 == 0) {
            Ok(l2) => {
                if l2.curvature == lib.curvature && orbifold::parse_symbol(&l2.symbol) == base_parsed && achiral && l2.symbol != lib.symbol {
                    ctx.violation(
                        "orbifold-symbol-text-changes-under-renumbering",
                        "delaney2d::orbifold_symbol",
                        json!({"symbol": m.to_text(), "renumbered": mp.to_text()}),
                        json!({"orbifold_symbol": [lib.symbol, l2.symbol]}),
                        "no boundary component of this orbifold changes when reversed, so the symbol is unchanged as a text",
                    );
                    break;
                }
                if l2.curvature != lib.curvature || orbifold::parse_symbol(&l2.symbol) != base_parsed {
                    ctx.violation(
                        "not-invariant-under-renumbering",
                        "delaney2d::{curvature,orbifold_symbol}",
                        json!({"symbol": m.to_text(), "renumbered": mp.to_text()}),
                        json!({"curvature": [lib.curvature.to_string(), l2.curvature.to_string()], "orbifold_symbol": [lib.symbol, l2.symbol]}),
                        "curvature and orbifold symbol (up to reversing boundary components) unchanged by renumbering",
                    );
                    break;
                }
            }
            Err(pn) => {
                ctx.violation(&format!("panic@{}", pn.short_loc()), "delaney2d", json!({"symbol": mp.to_text()}), pn.to_json(), "no panic");
                break;
            }
        }
    }
    // dual: through the library's dual() and through the model's
    let md = m.dual();
    ctx.eval();
    let r = observe(|| from_dsym(&dual(&to_partial_dsym(m))));
    if let Some(ld) = ctx.no_panic("derived::dual", || json!({"symbol": m.to_text()}), r) {
        if ld != md {
            ctx.violation("dual-differs-from-model", "derived::dual", json!({"symbol": m.to_text()}), json!({"got": ld.to_text(), "expected": md.to_text()}), "dual reverses the index order");
        }
    }
    match query(&md, false) {
        Ok(l2) => {
            if l2.curvature == lib.curvature && orbifold::parse_symbol(&l2.symbol) == base_parsed && achiral && l2.symbol != lib.symbol {
                ctx.violation(
                    "orbifold-symbol-text-changes-under-dualisation",
                    "delaney2d::orbifold_symbol",
                    json!({"symbol": m.to_text(), "dual": md.to_text()}),
                    json!({"orbifold_symbol": [lib.symbol, l2.symbol]}),
                    "no boundary component of this orbifold changes when reversed, so the symbol is unchanged as a text",
                );
            }
            if l2.curvature != lib.curvature || orbifold::parse_symbol(&l2.symbol) != base_parsed {
                ctx.violation(
                    "not-invariant-under-dualisation",
                    "delaney2d::{curvature,orbifold_symbol}",
                    json!({"symbol": m.to_text(), "dual": md.to_text()}),
                    json!({"curvature": [lib.curvature.to_string(), l2.curvature.to_string()], "orbifold_symbol": [lib.symbol, l2.symbol]}),
                    "curvature and orbifold symbol unchanged by dualisation",
                );
            }
        }
        Err(pn) => ctx.violation(&format!("panic@{}", pn.short_loc()), "delaney2d", json!({"symbol": md.to_text()}), pn.to_json(), "no panic"),
    }
}

pub fn run(cfg: &Cfg) -> Report {
    let mut report = Report::new(cfg);
    // out-of-domain calls between judged cases: the 2D routines on a 3D and on a 1D symbol
    crate::monitor::set_poison(|k| {
        let t = ["<1.1:1 3:1,1,1,1:4,3,4>", "<1.1:1 1:1,1:4>"][(k % 2) as usize];
        if let Ok(ds) = t.parse::<rust_dsymbols::dsyms::PartialDSym>() {
            if k % 4 < 2 {
                let _ = orbifold_symbol(&ds);
            } else {
                let _ = curvature(&ds);
            }
        }
    });
    let seed = cfg.seed;
    let (nmax, vmax) = cfg.tier.pick((5, 5), (6, 5));
    let mut symbols: Vec<MSym> = vec![];
    for s in gen::connected_sets_upto(2, nmax) {
        gen::for_all_branchings(&s, &|_, _| (1..=vmax).collect(), &mut |x| symbols.push(x.clone()));
    }
    // bigger sets with sampled branchings incl. two-digit values
    let mut rng0 = Rng::stream(seed, 8);
    for s in gen::connected_sets_upto(2, cfg.tier.pick(7, 8)) {
        for _ in 0..cfg.tier.pick(6, 24) {
            let mut x = s.clone();
            for (i, _, members, _) in gen::adjacent_orbits(&s) {
                let v = *rng0.pick(&[1usize, 1, 2, 3, 4, 6, 10, 12, 15]);
                for e in members {
                    x.v[i][e] = v;
                }
            }
            symbols.push(x);
        }
    }
    symbols.extend(gen::random_larger_2d_symbols(seed, cfg.tier.pick(60_000, 1_200_000), cfg.tier.pick(16, 30), &[1, 1, 1, 2, 2, 3, 4, 5, 6, 7, 10, 12, 15]));
    for (_, s) in gen::structured_2d_sets() {
        for _ in 0..cfg.tier.pick(3, 20) {
            symbols.push(gen::random_branching(&mut rng0, &s, &[1, 1, 1, 2, 3, 10, 11, 99, 100, 101]));
        }
    }
    // mirror polygons with many corners: a strip (op2 = identity) has one boundary component with n/2 + 2
    // corner points; corner orders 2..9 (single digits) and mixed with two-digit ones, 20-60 corners. The
    // canonical rotation / reflection of such a long boundary word is where a shortcut can go wrong.
    for n in cfg.tier.pick(vec![36usize, 40, 44, 48, 64], vec![20, 30, 36, 38, 40, 42, 44, 48, 56, 64, 80, 120]) {
        for t in 0..cfg.tier.pick(4, 12) {
            let mut x = gen::strip_2d(n, false);
            let pool: &[usize] = if t % 2 == 0 { &[2, 3, 4, 5, 6, 7, 8, 9] } else { &[1, 2, 3, 9, 10, 12] };
            for (i, _, members, _) in gen::adjacent_orbits(&x.clone()) {
                let v = if i == 0 { 1 + rng0.below(3) } else { *rng0.pick(pool) };
                for e in members {
                    x.v[i][e] = v;
                }
            }
            symbols.push(x);
        }
    }
    for s in gen::connected_sets_upto(2, 3) {
        for _ in 0..cfg.tier.pick(4, 20) {
            symbols.push(gen::random_branching(&mut rng0, &s, &[9, 10, 11, 99, 100, 101, 255, 256, 1000, 65536]));
        }
    }
    let all_perms: Vec<Vec<Vec<usize>>> = (0..=5).map(|n| if n == 0 { vec![] } else { gen::all_perms1(n) }).collect();
    let ctx = par_items(cfg, &symbols, |ctx, k, m| {
        let mut rng = Rng::stream(seed, 0x08_0000 + k as u64);
        let perms = if m.n <= 4 && k % 8 == 0 { all_perms[m.n].clone() } else { gen::some_perms1(m.n, 2, &mut rng) };
        judge(ctx, m, &perms, k);
        if k % 5000 == 0 {
            ctx.sample(|| json!({"symbol": m.to_text(), "model_orbifold": format!("{:?}", orbifold::orbifold(m)), "curvature": orbifold::curvature(m).to_string()}));
        }
    });
    report.absorb(ctx);

    // covers: curvature is multiplied by the sheet number
    let bases: Vec<MSym> = symbols.iter().filter(|s| s.n <= 4 && s.v.iter().flatten().all(|&v| v <= 20)).step_by(cfg.tier.pick(5, 3)).cloned().collect();
    let ctx = par_items(cfg, &bases, |ctx, k, b| {
        let mut covers: Vec<MSym> = vec![];
        let c = b.double_cover_by_cocycle(&|_, _| true);
        if c.is_connected() && c.is_valid_symbol() {
            covers.push(c);
        }
        if k % 2 == 0 {
            if let Ok(cs) = observe(|| rust_dsymbols::covers::covers(&to_partial_dsym(b), 4).iter().map(|c| from_dsym(c)).collect::<Vec<_>>()) {
                for c in cs {
                    if c.is_valid_symbol() && c.is_connected() && c.covering_map_onto(b).is_some() {
                        covers.push(c);
                    }
                }
            }
        }
        let kb = match query(b, false) {
            Ok(l) => l.curvature,
            Err(_) => return,
        };
        for c in covers {
            let sheets = (c.n / b.n) as i128;
            ctx.eval();
            if let Some((lc, _)) = judge_one(ctx, &c, k) {
                if lc.curvature != kb.mul(Frac::int(sheets)) {
                    ctx.violation(
                        "curvature-not-multiplied-by-sheet-number",
                        "delaney2d::curvature",
                        json!({"base": b.to_text(), "cover": c.to_text()}),
                        json!({"base_curvature": kb.to_string(), "cover_curvature": lc.curvature.to_string(), "sheets": sheets.to_string()}),
                        "K(cover) = sheets x K(base)",
                    );
                }
            }
            ctx.count("cover_pairs");
        }
    });
    report.absorb(ctx);

    report.rule = format!("all 2D symbols on connected sets <= {} chambers with v in 1..{} (every 8th with all renumberings, others with 3), symbols on sets up to 6-7 chambers with sampled branching incl. 10, 12, 15 (parenthesised notation), their duals, and covers with <= 4 sheets (model double covers and validated library covers). Non-trivial = symbol with mirror boundary, or non-orientable, or with a two-digit cone; distinct = distinct symbol digests", nmax, vmax);
    report.explanation = "the returned Conway symbol is parsed and its orbifold Euler characteristic compared with the curvature (Gauss-Bonnet, exact rationals); cones, boundary components (cyclic, up to reversal), genus and orientability compared with an orbifold computed from the definitions; geometry predicates decided on the model orbifold, not on the library's string".into();
    report.note("exhaustive_subuniverses", json!([format!("all 2D symbols on connected sets <= {} chambers with v <= {}", nmax, vmax)]));
    report.assume("domain: connected complete 2D symbols");
    for kind in ["orientable_closed", "orientable_with_boundary", "nonorientable_closed", "nonorientable_with_boundary"] {
        report.require_counter(&format!("topology.{}", kind), 50);
    }
    for g in ["euclidean", "hyperbolic", "spherical"] {
        report.require_counter(&format!("geometry.{}", g), 50);
    }
    report.require_counter("geometry.bad_orbifold", 10);
    report.require_counter("two_digit_cone_or_corner", 10);
    report.require_counter("cover_pairs", 20);
    report
}

pub fn replay(ctx: &mut Ctx, input: &Value) -> bool {
    if let (Some(b), Some(c)) = (input.get("base").and_then(|x| x.as_str()).and_then(msym_from_text), input.get("cover").and_then(|x| x.as_str()).and_then(msym_from_text)) {
        if let (Ok(lb), Ok(lc)) = (query(&b, false), query(&c, false)) {
            if lc.curvature != lb.curvature.mul(Frac::int((c.n / b.n) as i128)) {
                ctx.violation("curvature-not-multiplied-by-sheet-number", "delaney2d::curvature", input.clone(), json!({}), "K(cover) = sheets x K(base)");
            }
        }
        return true;
    }
    if let Some(m) = input.get("symbol").and_then(|x| x.as_str()).and_then(msym_from_text) {
        let mut rng = Rng::new(1);
        let perms = if m.n <= 5 { gen::all_perms1(m.n) } else { gen::some_perms1(m.n, 20, &mut rng) };
        judge(ctx, &m, &perms, 0);
        judge(ctx, &m, &[], 1);
        return true;
    }
    false
}
