//! C09 — the fundamental-group presentation presents the orbifold fundamental group.

use crate::bridge::*;
use crate::gen;
use crate::monitor::{digest, observe, par_items, Cfg, Ctx, Report};
use crate::oracle::dsym::MSym;
use crate::oracle::groups::{self, inverse, is_reduced, reduce, rotate, Pres, Word};
use crate::oracle::orbifold;
use crate::oracle::pi1;
use crate::oracle::snf;
use crate::rng::Rng;
use rust_dsymbols::fundamental_group::{fundamental_group, inner_edges};
use serde_json::{json, Value};
use std::collections::{BTreeMap, BTreeSet};

/// What the library returned, converted to oracle-side values.
pub struct LibFg {
    pub pres: Pres,
    pub cones: Vec<(Word, usize)>,
    pub gen_to_edge: BTreeMap<usize, (usize, usize)>,
    pub edge_to_word: BTreeMap<(usize, usize), Word>,
}

pub fn lib_fg(m: &MSym, simple: bool) -> Result<LibFg, crate::monitor::PanicInfo> {
    observe(|| {
        let fg = if simple { fundamental_group(&to_simple_dsym(m)) } else { fundamental_group(&to_partial_dsym(m)) };
        LibFg {
            pres: Pres { ngens: fg.nr_generators(), rels: from_freewords(fg.relators.iter()) },
            cones: fg.cones.iter().map(|(w, v)| (from_freeword(w), *v)).collect(),
            gen_to_edge: fg.gen_to_edge.clone(),
            edge_to_word: fg.edge_to_word.iter().map(|(k, w)| (*k, from_freeword(w))).collect(),
        }
    })
}

/// Conjugacy class representatives: all rotations (and their inverses) of the cyclic reduction.
/// Two words are conjugate in the free group (up to inversion) iff these sets are equal.
fn rotation_class(w: &Word) -> BTreeSet<Word> {
    let mut w = reduce(w);
    while w.len() >= 2 && w[0] == -w[w.len() - 1] {
        w = w[1..w.len() - 1].to_vec();
    }
    let mut s = BTreeSet::new();
    if w.is_empty() {
        s.insert(vec![]);
        return s;
    }
    for k in 0..w.len() {
        let r = reduce(&rotate(&w, k));
        s.insert(reduce(&inverse(&r)));
        s.insert(r);
    }
    s
}

#[derive(Clone, Copy)]
pub struct Depth {
    pub low_index: usize, // 0 = skip
    pub order_bound: usize,
}

pub fn judge(ctx: &mut Ctx, m: &MSym, simple: bool, depth: Depth) {
    let input = || json!({"symbol": m.to_text(), "representation": if simple { "SimpleDSym" } else { "PartialDSym" }});
    ctx.eval();
    let fg = match ctx.no_panic("fundamental_group::fundamental_group", input, lib_fg(m, simple)) {
        Some(f) => f,
        None => return,
    };
    let g = fg.pres.ngens;
    let word_at = |d: usize, i: usize| -> Word { fg.edge_to_word.get(&(d, i)).cloned().unwrap_or_default() };

    // ---- structure ----
    let mut bad: Vec<(&str, Value)> = vec![];
    // all words freely reduced and over 1..g
    let all_words = fg.pres.rels.iter().chain(fg.cones.iter().map(|(w, _)| w)).chain(fg.edge_to_word.values());
    for w in all_words {
        if !is_reduced(w) {
            bad.push(("returned-word-not-freely-reduced", json!({"word": w})));
            break;
        }
        if w.iter().any(|&x| x.unsigned_abs() as usize > g) {
            bad.push(("word-uses-unknown-generator", json!({"word": w, "generators": g})));
            break;
        }
    }
    // generators <-> facet pairs
    if fg.gen_to_edge.keys().cloned().collect::<Vec<_>>() != (1..=g).collect::<Vec<_>>() {
        bad.push(("generator-numbering", json!({"keys": fg.gen_to_edge.keys().collect::<Vec<_>>()})));
    } else {
        let mut pairs = BTreeSet::new();
        for (&k, &(d, i)) in &fg.gen_to_edge {
            if d < 1 || d > m.n || i > m.dim {
                bad.push(("generator-facet-out-of-range", json!({"generator": k, "facet": [d, i]})));
                break;
            }
            let e = m.op[i][d];
            if !pairs.insert((i, d.min(e), d.max(e))) {
                bad.push(("two-generators-on-one-facet-pair", json!({"generator": k, "facet": [d, i]})));
                break;
            }
            let (wd, we) = (word_at(d, i), word_at(e, i));
            let k = k as i64;
            let ok = if e == d { wd == vec![k] || wd == vec![-k] } else { (wd == vec![k] && we == vec![-k]) || (wd == vec![-k] && we == vec![k]) };
            if !ok {
                bad.push(("generator-facet-does-not-carry-its-letter", json!({"generator": k, "facet": [d, i], "word": wd, "word_other_side": we})));
                break;
            }
        }
    }
    // two sides of a non-mirror facet are mutually inverse
    'outer: for d in 1..=m.n {
        for i in 0..=m.dim {
            let e = m.op[i][d];
            if e != d && reduce(&inverse(&word_at(e, i))) != word_at(d, i) {
                bad.push(("facet-sides-not-mutually-inverse", json!({"facet": [d, i], "word": word_at(d, i), "other_side": word_at(e, i)})));
                break 'outer;
            }
        }
    }
    for &(d, i) in fg.edge_to_word.keys() {
        if d < 1 || d > m.n || i > m.dim {
            bad.push(("edge-word-for-nonexistent-facet", json!({"facet": [d, i]})));
            break;
        }
    }
    // cones = words traced around the branched 2-orbits
    let mut expected: Vec<(BTreeSet<Word>, usize, (usize, usize, usize))> = vec![];
    for i in 0..=m.dim {
        for j in (i + 1)..=m.dim {
            let mut done = vec![false; m.n + 1];
            for d in 1..=m.n {
                if done[d] {
                    continue;
                }
                for e in m.orbit(&[i, j], d) {
                    done[e] = true;
                }
                let v = m.vv(i, j, d);
                if v > 1 {
                    let mut w: Word = vec![];
                    let mut e = d;
                    loop {
                        w.extend(word_at(e, i));
                        e = m.op[i][e];
                        w.extend(word_at(e, j));
                        e = m.op[j][e];
                        if e == d {
                            break;
                        }
                    }
                    expected.push((rotation_class(&w), v, (i, j, d)));
                }
            }
        }
    }
    for (w, v) in &fg.cones {
        if !expected.iter().any(|(cls, ev, _)| ev == v && *cls == rotation_class(w)) {
            bad.push(("cone-that-is-no-branched-orbit", json!({"cone": [json!(w), json!(v)]})));
            break;
        }
    }
    for (cls, v, orbit) in &expected {
        if !fg.cones.iter().any(|(w, cv)| cv == v && *cls == rotation_class(w)) {
            bad.push(("branched-orbit-missing-from-cone-list", json!({"orbit": [orbit.0, orbit.1, orbit.2], "branching": v, "traced_word": cls.iter().next()})));
            break;
        }
    }
    let structure_ok = bad.is_empty();
    for (c, o) in bad {
        ctx.violation(c, "fundamental_group::fundamental_group", input(), o, "generators on facet pairs, mutually inverse facet words, cones = branched 2-orbits, all words reduced");
    }
    if !structure_ok {
        return;
    }

    // ---- the group ----
    let tb = pi1::textbook_pi1(m);
    let a_lib = snf::abelian_invariants_of_presentation(fg.pres.ngens, &fg.pres.rels);
    let a_tb = snf::abelian_invariants_of_presentation(tb.pres.ngens, &tb.pres.rels);
    if a_lib != a_tb {
        ctx.violation(
            "abelianisation-differs-from-textbook-presentation",
            "fundamental_group::fundamental_group",
            input(),
            json!({"library": a_lib.iter().map(|x| x.to_string()).collect::<Vec<_>>(), "textbook": a_tb.iter().map(|x| x.to_string()).collect::<Vec<_>>(), "relators": fg.pres.rels}),
            "equal abelianisations",
        );
        return;
    }
    ctx.count("abelianisation_compared");
    if depth.low_index > 0 && fg.pres.ngens <= 6 && tb.pres.ngens <= 7 {
        let k = if tb.pres.ngens >= 6 { depth.low_index.min(2) } else { depth.low_index };
        let p1 = groups::low_index_profile(&fg.pres, k, 400_000);
        let p2 = groups::low_index_profile(&tb.pres, k, 400_000);
        if let (Some(p1), Some(p2)) = (p1, p2) {
            if p1 != p2 {
                ctx.violation("low-index-profile-differs-from-textbook-presentation", "fundamental_group::fundamental_group", input(), json!({"library": p1, "textbook": p2, "relators": fg.pres.rels}), "equal numbers of conjugacy classes of subgroups of each small index");
                return;
            }
            ctx.count("low_index_profile_compared");
        }
    }
    if depth.order_bound > 0 {
        let o_tb = groups::order(&tb.pres, depth.order_bound);
        if let Some(o) = o_tb {
            match groups::order(&fg.pres, 20 * depth.order_bound) {
                Some(o2) if o2 == o => ctx.count("finite_order_compared"),
                Some(o2) => {
                    ctx.violation("order-differs-from-textbook-presentation", "fundamental_group::fundamental_group", input(), json!({"library": o2, "textbook": o, "relators": fg.pres.rels}), "equal order when finite");
                    return;
                }
                // the harness's enumeration of the library's presentation hit its row limit (20 x the bound that
                // sufficed for the textbook presentation): a limit of the oracle, not an observation; the
                // abelianisation and low-index clauses have judged this presentation
                None => ctx.out_of_domain("oracle-could-not-enumerate-library-presentation"),
            }
            if m.dim == 2 {
                let k = orbifold::curvature(m);
                if k.sign() > 0 && !orbifold::orbifold(m).is_bad() {
                    // |pi1| = 4 / K
                    let want = crate::oracle::frac::Frac::int(4).div(k);
                    if want.d != 1 || want.n != o as i128 {
                        ctx.inconclusive.push(format!("oracle: order {} of textbook presentation differs from 4/K = {} for {}", o, want.to_string(), m.to_text()));
                    }
                }
            }
        }
    }
    if g >= 2 && !fg.cones.is_empty() {
        ctx.nontrivial(digest(&("fg", m, simple)));
    }
    ctx.count("symbols_judged");
}

pub fn judge_inner_edges(ctx: &mut Ctx, m: &MSym, depth: Depth) {
    let input = || json!({"symbol": m.to_text()});
    ctx.eval();
    let r = observe(|| inner_edges(&to_partial_dsym(m)));
    let edges = match ctx.no_panic("fundamental_group::inner_edges", input, r) {
        Some(e) => e,
        None => return,
    };
    if edges.iter().any(|&(d, i)| d < 1 || d > m.n || i > m.dim) {
        ctx.violation("inner-edge-out-of-range", "fundamental_group::inner_edges", input(), json!(edges), "facets of the symbol");
        return;
    }
    // they connect all chambers
    let mut q = crate::oracle::quickfind::QuickFind::new(m.n + 1);
    for &(d, i) in &edges {
        q.union(d, m.op[i][d]);
    }
    if (1..=m.n).any(|d| !q.same(1, d)) {
        ctx.violation("inner-edges-do-not-connect-all-chambers", "fundamental_group::inner_edges", input(), json!(edges), "the listed facets contain a spanning tree of the chamber graph");
        return;
    }
    // none carries a non-empty word
    if let Ok(fg) = lib_fg(m, false) {
        for &(d, i) in &edges {
            if fg.edge_to_word.get(&(d, i)).map_or(false, |w| !w.is_empty()) {
                ctx.violation("inner-edge-carries-a-word", "fundamental_group::{inner_edges,fundamental_group}", input(), json!({"facet": [d, i], "word": fg.edge_to_word[&(d, i)]}), "interior facets are trivial");
                return;
            }
        }
    }
    // declaring them trivial does not change the group
    let tb = pi1::textbook_pi1(m);
    let tb2 = pi1::textbook_pi1_with_trivial_facets(m, Some(&edges));
    let a1 = snf::abelian_invariants_of_presentation(tb.pres.ngens, &tb.pres.rels);
    let a2 = snf::abelian_invariants_of_presentation(tb2.pres.ngens, &tb2.pres.rels);
    let mut same = a1 == a2;
    if same && depth.low_index > 0 && tb.pres.ngens <= 6 && tb2.pres.ngens <= 6 {
        let k = depth.low_index.min(3);
        if let (Some(p1), Some(p2)) = (groups::low_index_profile(&tb.pres, k, 300_000), groups::low_index_profile(&tb2.pres, k, 300_000)) {
            same = p1 == p2;
        }
    }
    if !same {
        ctx.violation("inner-edges-are-not-interior-to-a-simply-connected-domain", "fundamental_group::inner_edges", input(), json!({"edges": edges}), "the textbook presentation with exactly these facets declared trivial (instead of a spanning tree) has the same abelianisation and low-index counts");
        return;
    }
    ctx.count("inner_edges_judged");
}

pub fn run(cfg: &Cfg) -> Report {
    let mut report = Report::new(cfg);
    let seed = cfg.seed;
    let depth = Depth { low_index: cfg.tier.pick(3, 4), order_bound: cfg.tier.pick(2000, 5000) };
    let mut symbols: Vec<MSym> = vec![];
    for s in gen::connected_sets_upto(2, cfg.tier.pick(5, 6)) {
        if gen::adjacent_orbits(&s).len() <= 6 {
            gen::for_all_branchings(&s, &|_, _| vec![1, 2, 3], &mut |x| symbols.push(x.clone()));
        }
    }
    let mut rng0 = Rng::stream(seed, 9);
    for s in gen::connected_sets_upto(3, cfg.tier.pick(3, 4)) {
        if gen::adjacent_orbits(&s).len() <= 4 {
            gen::for_all_branchings(&s, &|_, _| vec![1, 2, 3, 4, 6], &mut |x| symbols.push(x.clone()));
        } else {
            for _ in 0..cfg.tier.pick(20, 60) {
                let mut x = s.clone();
                for (i, _, members, _) in gen::adjacent_orbits(&s) {
                    let v = *rng0.pick(&[1usize, 1, 2, 3, 4, 6]);
                    for e in members {
                        x.v[i][e] = v;
                    }
                }
                symbols.push(x);
            }
        }
    }
    for (_, s) in gen::structured_2d_sets().into_iter().chain(gen::structured_3d_sets()) {
        if s.n <= cfg.tier.pick(130, 400) {
            symbols.push(gen::random_branching(&mut rng0, &s, &[1, 1, 1, 2, 3]));
            symbols.push(gen::random_branching(&mut rng0, &s, &[1]));
        }
    }
    // 3D symbols with 6-8 chambers: sets from the library's D-set generator (instrument, validated by C06 and
    // re-validated by the model here), random small branching
    {
        let sets: Vec<MSym> = observe(|| rust_dsymbols::generators::dset_generators::DSets::new(3, 8).map(|s| from_dset(&s)).collect::<Vec<_>>()).unwrap_or_default();
        let big: Vec<&MSym> = sets.iter().filter(|s| s.n >= 6 && s.is_complete_set() && s.ops_are_involutions() && s.far_ops_commute() && s.is_connected()).collect();
        for k in 0..cfg.tier.pick(40_000, 400_000) {
            if big.is_empty() {
                break;
            }
            let s = big[rng0.below(big.len())];
            let _ = k;
            symbols.push(gen::random_branching(&mut rng0, s, &[1, 1, 1, 2, 2, 3]));
        }
    }
    // random larger 2D symbols (7-12 chambers): structure, abelianisation, and the deeper clauses when small enough
    symbols.extend(gen::random_larger_2d_symbols(seed, cfg.tier.pick(6_000, 30_000), cfg.tier.pick(12, 20), &[1, 1, 1, 2, 2, 3, 4, 6]));
    let ctx = par_items(cfg, &symbols, |ctx, k, m| {
        let mut rng = Rng::stream(seed, 0x09_0000 + k as u64);
        judge(ctx, m, k % 2 == 1, depth);
        if k % 3 == 0 {
            judge_inner_edges(ctx, m, depth);
        }
        if k % 7 == 0 {
            // renumbered copy in the other representation
            let mp = m.renumbered(&rng.perm1(m.n));
            judge(ctx, &mp, k % 2 == 0, Depth { low_index: 2, order_bound: 500 });
        }
        if k % 2500 == 0 {
            ctx.sample(|| json!({"symbol": m.to_text(), "textbook_presentation": {"nr_gens": pi1::textbook_pi1(m).pres.ngens, "relators": pi1::textbook_pi1(m).pres.rels}}));
        }
    });
    report.absorb(ctx);

    // larger symbols: validated covers (structure + abelianisation only)
    let bases: Vec<MSym> = symbols.iter().filter(|s| s.n <= 3).step_by(cfg.tier.pick(11, 5)).cloned().collect();
    let ctx = par_items(cfg, &bases, |ctx, _k, b| {
        if let Ok(cs) = observe(|| rust_dsymbols::covers::covers(&to_partial_dsym(b), cfg.tier.pick(4, 6)).iter().map(|c| from_dsym(c)).collect::<Vec<_>>()) {
            for c in cs {
                if c.n > b.n && c.is_valid_symbol() && c.is_connected() && c.covering_map_onto(b).is_some() {
                    judge(ctx, &c, false, Depth { low_index: 0, order_bound: 0 });
                    ctx.count("cover_symbols");
                }
            }
        }
        let c = b.double_cover_by_cocycle(&|_, _| true);
        if c.is_valid_symbol() && c.is_connected() {
            judge(ctx, &c, true, Depth { low_index: 2, order_bound: 500 });
            ctx.count("cover_symbols");
        }
    });
    report.absorb(ctx);
    // finite universal covers of spherical symbols: 24-384 chambers, trivial group expected by both sides
    let big = ["<1.1:1:1,1,1:3,3>", "<1.1:1:1,1,1:4,3>", "<1.1:1:1,1,1:3,5>", "<1.1:1 3:1,1,1,1:3,3,3>", "<1.1:1 3:1,1,1,1:4,3,3>"];
    let nb = cfg.tier.pick(4, big.len());
    let ctx = crate::monitor::par_range(cfg, nb, |ctx, k| {
        let b = msym_from_text(big[k]).unwrap();
        if let Ok(c) = observe(|| from_dsym(&rust_dsymbols::covers::finite_universal_cover(&to_partial_dsym(&b)))) {
            if c.is_valid_symbol() && c.is_connected() {
                judge(ctx, &c, false, Depth { low_index: 0, order_bound: 0 });
                ctx.count("large_cover_symbols");
            }
        }
    });
    report.absorb(ctx);

    report.rule = "all 2D symbols on connected sets <= 4 (thorough 6) chambers with v in 1..3 and 3D symbols <= 3 (thorough 4) chambers with v in {1,2,3,4,6} (sampled when > 4 two-orbits), alternately as PartialDSym and SimpleDSym, every 7th also renumbered; validated covers up to 4-6 sheets and finite universal covers with 24-384 chambers (structure and abelianisation only). Non-trivial = presentation with >= 2 generators and >= 1 cone; distinct = digests of (symbol, representation)".into();
    report.explanation = "against the textbook presentation (generator per facet, tree facets trivial, 2-orbit words raised to v) built by the harness: equal abelian invariants (BigInt Smith normal form on both), equal low-index profile up to index 3-4 (harness low-index search on both), equal order when the harness Todd-Coxeter terminates; structural clauses checked directly on gen_to_edge / edge_to_word / cones; inner_edges: spanning, wordless, and declaring them trivial leaves the textbook group's invariants unchanged".into();
    report.assume("isomorphism of the two presentations is tested through the invariants the property names (abelianisation, low-index counts, finite order), not decided in general");
    report.require_counter("symbols_judged", 500);
    report.require_counter("low_index_profile_compared", 200);
    report.require_counter("finite_order_compared", 50);
    report.require_counter("inner_edges_judged", 100);
    report.require_counter("cover_symbols", 20);
    report
}

pub fn replay(ctx: &mut Ctx, input: &Value) -> bool {
    if let Some(m) = input.get("symbol").and_then(|x| x.as_str()).and_then(msym_from_text) {
        let d = Depth { low_index: 3, order_bound: 5000 };
        judge(ctx, &m, false, d);
        judge(ctx, &m, true, d);
        judge_inner_edges(ctx, &m, d);
        return true;
    }
    false
}
