//! C10 — free words behave as reduced elements of a free group.
//!
//! Events: every operation of an operation history over a pool of words. Oracle: the
//! `oracle::groups` free-group model updated in lock-step; after every operation the
//! library value (read through `iter()`) must be freely reduced and equal to the model value.

use crate::bridge::{from_freeword, to_freeword};
use crate::monitor::{digest, observe, par_range, Cfg, Ctx, Report};
use crate::oracle::groups::{concat, inverse, is_reduced, power, reduce, rotate, Word};
use crate::rng::Rng;
use rust_dsymbols::fpgroups::free_words::{relator_permutations, relator_representative, FreeWord};
use serde_json::{json, Value};
use std::cmp::Ordering;
use std::collections::BTreeSet;

#[derive(Clone, Debug)]
pub enum Op {
    New(usize, Word),        // slot <- FreeWord::new(raw letters)
    From(usize, Word),       // slot <- FreeWord::from(vec)
    Mul(usize, usize, usize, u8), // dst <- a * b in operand form 0..4
    MulGen(usize, usize, i64, u8), // dst <- a * g (form 0: &a*g, 1: a*g)
    MulAssign(usize, usize), // a *= &b
    Inverse(usize, usize),
    Power(usize, usize, i64),
    Commutator(usize, usize, usize),
    Rotated(usize, usize, i64),
    Compare(usize, usize),
    RelRep(usize),
    RelPerms(usize),
    NewLazy(usize, usize, usize), // dst <- FreeWord::new(lazy iterator substituting b^+-1 for the letters of a)
}

impl Op {
    pub fn to_json(&self) -> Value {
        match self {
            Op::New(s, w) => json!({"op":"new","dst":s,"letters":w}),
            Op::From(s, w) => json!({"op":"from","dst":s,"letters":w}),
            Op::Mul(d, a, b, f) => json!({"op":"mul","dst":d,"a":a,"b":b,"form":f}),
            Op::MulGen(d, a, g, f) => json!({"op":"mulgen","dst":d,"a":a,"g":g,"form":f}),
            Op::MulAssign(a, b) => json!({"op":"mul_assign","a":a,"b":b}),
            Op::Inverse(d, a) => json!({"op":"inverse","dst":d,"a":a}),
            Op::Power(d, a, k) => json!({"op":"raised_to","dst":d,"a":a,"k":k}),
            Op::Commutator(d, a, b) => json!({"op":"commutator","dst":d,"a":a,"b":b}),
            Op::Rotated(d, a, i) => json!({"op":"rotated","dst":d,"a":a,"i":i}),
            Op::Compare(a, b) => json!({"op":"compare","a":a,"b":b}),
            Op::RelRep(a) => json!({"op":"relator_representative","a":a}),
            Op::RelPerms(a) => json!({"op":"relator_permutations","a":a}),
            Op::NewLazy(d, a, b) => json!({"op":"new_from_lazy_substitution","dst":d,"a":a,"b":b}),
        }
    }
    pub fn from_json(v: &Value) -> Option<Op> {
        let u = |k: &str| v.get(k).and_then(|x| x.as_u64()).map(|x| x as usize);
        let i = |k: &str| v.get(k).and_then(|x| x.as_i64());
        let w = |k: &str| v.get(k).and_then(|x| x.as_array()).map(|a| a.iter().filter_map(|x| x.as_i64()).collect::<Word>());
        Some(match v.get("op")?.as_str()? {
            "new" => Op::New(u("dst")?, w("letters")?),
            "from" => Op::From(u("dst")?, w("letters")?),
            "mul" => Op::Mul(u("dst")?, u("a")?, u("b")?, u("form")? as u8),
            "mulgen" => Op::MulGen(u("dst")?, u("a")?, i("g")?, u("form")? as u8),
            "mul_assign" => Op::MulAssign(u("a")?, u("b")?),
            "inverse" => Op::Inverse(u("dst")?, u("a")?),
            "raised_to" => Op::Power(u("dst")?, u("a")?, i("k")?),
            "commutator" => Op::Commutator(u("dst")?, u("a")?, u("b")?),
            "rotated" => Op::Rotated(u("dst")?, u("a")?, i("i")?),
            "compare" => Op::Compare(u("a")?, u("b")?),
            "relator_representative" => Op::RelRep(u("a")?),
            "relator_permutations" => Op::RelPerms(u("a")?),
            "new_from_lazy_substitution" => Op::NewLazy(u("dst")?, u("a")?, u("b")?),
            _ => return None,
        })
    }
}

const SLOTS: usize = 4;

fn model_relator_set(w: &Word) -> BTreeSet<Word> {
    // rotations of the (reduced) word and of its inverse, as free group elements
    let mut s = BTreeSet::new();
    if w.is_empty() {
        s.insert(vec![]);
        return s;
    }
    for k in 0..w.len() {
        let r = reduce(&rotate(w, k));
        s.insert(reduce(&inverse(&r)));
        s.insert(r);
    }
    s
}

/// Executes a history on library and model in lock-step; records violations in ctx.
/// Returns (number of operations judged, whether any cancellation happened).
pub fn run_history(ctx: &mut Ctx, ops: &[Op]) -> (u64, bool) {
    let hist_json = || Value::Array(ops.iter().map(|o| o.to_json()).collect());
    let mut lib: Vec<FreeWord> = (0..SLOTS).map(|_| FreeWord::empty()).collect();
    let mut model: Vec<Word> = vec![vec![]; SLOTS];
    let mut judged = 0u64;
    let mut cancelled = false;

    for (step, op) in ops.iter().enumerate() {
        // keep words bounded: an operation whose raw result would exceed MAX_LEN letters is skipped
        const MAX_LEN: usize = 3000;
        let raw_len = match op {
            Op::Mul(_, a, b, _) | Op::MulAssign(a, b) => model[*a].len() + model[*b].len(),
            Op::Power(_, a, k) => model[*a].len() * k.unsigned_abs() as usize,
            Op::Commutator(_, a, b) => 2 * (model[*a].len() + model[*b].len()),
            Op::NewLazy(_, a, b) => model[*a].len() * model[*b].len(),
            _ => 0,
        };
        if raw_len > MAX_LEN {
            ctx.count("skipped_operations_word_too_long");
            continue;
        }
        let api: &str;
        // compute the model result and the library result
        let mut expect_dst: Option<(usize, Word)> = None;
        let lib_snapshot = lib.clone();
        let res: Result<Option<(usize, FreeWord)>, _> = match op {
            Op::New(s, w) => {
                api = "FreeWord::new";
                expect_dst = Some((*s, reduce(w)));
                if reduce(w).len() < w.len() {
                    cancelled = true;
                }
                let w = w.clone();
                observe(|| Some((*s, FreeWord::new(w.iter().map(|&x| x as isize)))))
            }
            Op::From(s, w) => {
                api = "FreeWord::from";
                expect_dst = Some((*s, reduce(w)));
                let w: Vec<isize> = w.iter().map(|&x| x as isize).collect();
                observe(|| Some((*s, FreeWord::from(w))))
            }
            Op::Mul(d, a, b, f) => {
                api = "Mul<FreeWord>";
                let raw = concat(&model[*a], &model[*b]);
                let red = reduce(&raw);
                if red.len() < raw.len() {
                    cancelled = true;
                }
                expect_dst = Some((*d, red));
                let (x, y) = (lib[*a].clone(), lib[*b].clone());
                observe(|| {
                    Some((
                        *d,
                        match f % 4 {
                            0 => &x * &y,
                            1 => &x * y,
                            2 => x * &y,
                            _ => x * y,
                        },
                    ))
                })
            }
            Op::MulGen(d, a, g, f) => {
                api = "Mul<isize>";
                let raw = concat(&model[*a], &[*g]);
                let red = reduce(&raw);
                if red.len() < raw.len() {
                    cancelled = true;
                }
                expect_dst = Some((*d, red));
                let x = lib[*a].clone();
                observe(|| Some((*d, if f % 2 == 0 { &x * (*g as isize) } else { x * (*g as isize) })))
            }
            Op::MulAssign(a, b) => {
                api = "MulAssign<&FreeWord>";
                let raw = concat(&model[*a], &model[*b]);
                let red = reduce(&raw);
                if red.len() < raw.len() {
                    cancelled = true;
                }
                expect_dst = Some((*a, red));
                let (mut x, y) = (lib[*a].clone(), lib[*b].clone());
                observe(|| {
                    x *= &y;
                    Some((*a, x))
                })
            }
            Op::NewLazy(d, a, b) => {
                // construction from a LAZY letter sequence whose next() itself performs free-word operations
                // (letter-by-letter substitution inside flat_map): construction must not depend on state shared
                // between calls
                api = "FreeWord::new (lazy iterator performing free-word operations)";
                let mut raw: Word = vec![];
                for &x in &model[*a] {
                    if x > 0 {
                        raw.extend(model[*b].iter().cloned());
                    } else {
                        raw.extend(inverse(&model[*b]));
                    }
                }
                let red = reduce(&raw);
                if red.len() < raw.len() {
                    cancelled = true;
                }
                expect_dst = Some((*d, red));
                let (x, y) = (lib[*a].clone(), lib[*b].clone());
                observe(|| {
                    Some((
                        *d,
                        FreeWord::new(x.iter().flat_map(|&l| {
                            let img = if l > 0 { y.clone() } else { y.inverse() };
                            img.iter().cloned().collect::<Vec<isize>>()
                        })),
                    ))
                })
            }
            Op::Inverse(d, a) => {
                api = "FreeWord::inverse";
                expect_dst = Some((*d, reduce(&inverse(&model[*a]))));
                let x = lib[*a].clone();
                observe(|| Some((*d, x.inverse())))
            }
            Op::Power(d, a, k) => {
                api = "FreeWord::raised_to";
                let raw = power(&model[*a], *k);
                let red = reduce(&raw);
                if red.len() < raw.len() {
                    cancelled = true;
                }
                expect_dst = Some((*d, red));
                let x = lib[*a].clone();
                observe(|| Some((*d, x.raised_to(*k as isize))))
            }
            Op::Commutator(d, a, b) => {
                api = "FreeWord::commutator";
                let raw = concat(&concat(&model[*a], &model[*b]), &concat(&inverse(&model[*a]), &inverse(&model[*b])));
                let red = reduce(&raw);
                if red.len() < raw.len() {
                    cancelled = true;
                }
                expect_dst = Some((*d, red));
                let (x, y) = (lib[*a].clone(), lib[*b].clone());
                observe(|| Some((*d, x.commutator(&y))))
            }
            Op::Rotated(d, a, i) => {
                api = "FreeWord::rotated";
                let w = &model[*a];
                let red = if w.is_empty() {
                    vec![]
                } else {
                    let k = i.rem_euclid(w.len() as i64) as usize;
                    let raw = rotate(w, k);
                    let red = reduce(&raw);
                    if red.len() < raw.len() {
                        cancelled = true;
                    }
                    red
                };
                expect_dst = Some((*d, red));
                let x = lib[*a].clone();
                observe(|| Some((*d, x.rotated(*i as isize))))
            }
            Op::Compare(a, b) => {
                api = "Ord/Eq/Hash for FreeWord";
                let (x, y) = (lib[*a].clone(), lib[*b].clone());
                let meq = model[*a] == model[*b];
                let r = observe(|| (x.cmp(&y), y.cmp(&x), x == y, x.partial_cmp(&y), digest(&x) == digest(&y)));
                match r {
                    Ok((c, cr, eq, pc, heq)) => {
                        judged += 1;
                        if eq != meq {
                            ctx.violation("eq-differs-from-free-group-equality", api, hist_json(), json!({"step": step, "lib_eq": eq, "model_eq": meq}), "== iff equal in the free group");
                        }
                        if (c == Ordering::Equal) != eq || c != cr.reverse() || pc != Some(c) {
                            ctx.violation("order-incompatible-with-equality", api, hist_json(), json!({"step": step, "cmp": format!("{:?}", c), "rev": format!("{:?}", cr), "eq": eq}), "cmp Equal iff ==, antisymmetric, partial_cmp consistent");
                        }
                        if eq && !heq {
                            ctx.violation("hash-differs-for-equal-words", api, hist_json(), json!({"step": step}), "equal words hash equally");
                        }
                    }
                    Err(p) => {
                        ctx.violation(&format!("panic@{}", p.short_loc()), api, hist_json(), p.to_json(), "no panic");
                    }
                }
                Ok(None)
            }
            Op::RelRep(a) => {
                api = "relator_representative";
                let x = lib[*a].clone();
                let r = observe(|| relator_representative(&x));
                match r {
                    Ok(rep) => {
                        judged += 1;
                        let set = model_relator_set(&model[*a]);
                        // least element under the library's own (separately validated) order
                        let best = set.iter().map(|w| to_freeword(w)).min().unwrap();
                        let got = from_freeword(&rep);
                        if !is_reduced(&got) || got != from_freeword(&best) {
                            ctx.violation(
                                "relator-representative-not-least-rotation",
                                api,
                                hist_json(),
                                json!({"step": step, "word": model[*a], "got": got, "least": from_freeword(&best)}),
                                "least element among all rotations of the word and of its inverse",
                            );
                        }
                    }
                    Err(p) => ctx.violation(&format!("panic@{}", p.short_loc()), api, hist_json(), p.to_json(), "no panic"),
                }
                Ok(None)
            }
            Op::RelPerms(a) => {
                api = "relator_permutations";
                let x = lib[*a].clone();
                let r = observe(|| relator_permutations(&x));
                match r {
                    Ok(perms) => {
                        judged += 1;
                        let set = model_relator_set(&model[*a]);
                        let got: BTreeSet<Word> = perms.iter().map(from_freeword).collect();
                        if got != set || perms.len() != set.len() {
                            ctx.violation(
                                "relator-permutations-not-the-rotation-set",
                                api,
                                hist_json(),
                                json!({"step": step, "word": model[*a], "got": got, "expected": set}),
                                "exactly the rotations of the word and of its inverse",
                            );
                        }
                    }
                    Err(p) => ctx.violation(&format!("panic@{}", p.short_loc()), api, hist_json(), p.to_json(), "no panic"),
                }
                Ok(None)
            }
        };
        match res {
            Ok(Some((dst, value))) => {
                judged += 1;
                let (edst, expected) = expect_dst.unwrap();
                debug_assert_eq!(dst, edst);
                let got = from_freeword(&value);
                if value.len() != got.len() {
                    ctx.violation("len-differs-from-iter", api, hist_json(), json!({"step": step, "len": value.len(), "letters": got}), "len() == number of letters");
                }
                if !is_reduced(&got) {
                    ctx.violation(
                        "result-not-freely-reduced",
                        api,
                        hist_json(),
                        json!({"step": step, "result": got, "model": expected}),
                        "every operation returns a freely reduced word",
                    );
                } else if got != expected {
                    ctx.violation(
                        "result-differs-from-free-group",
                        api,
                        hist_json(),
                        json!({"step": step, "result": got, "model": expected}),
                        "value equals the free-group element computed by the model",
                    );
                }
                // after a mismatch the library slot is re-synchronised with the model so that
                // later steps report only new root causes, not the cascade
                lib[dst] = if got == expected { value } else { to_freeword(&expected) };
                model[dst] = expected;
            }
            Ok(None) => {}
            Err(p) => {
                ctx.violation(&format!("panic@{}", p.short_loc()), api, hist_json(), p.to_json(), "no panic on any word (empty word included)");
                lib = lib_snapshot;
                if let Some((dst, expected)) = expect_dst {
                    // continue from the model value so that later steps stay comparable
                    lib[dst] = to_freeword(&expected);
                    model[dst] = expected;
                }
            }
        }
    }
    (judged, cancelled)
}

fn raw_words(alphabet: &[i64], max_len: usize) -> Vec<Word> {
    let mut out: Vec<Word> = vec![vec![]];
    let mut frontier: Vec<Word> = vec![vec![]];
    for _ in 0..max_len {
        let mut next = vec![];
        for w in &frontier {
            for &a in alphabet {
                let mut x = w.clone();
                x.push(a);
                next.push(x);
            }
        }
        out.extend(next.iter().cloned());
        frontier = next;
    }
    out
}

fn random_word(rng: &mut Rng, gens: i64, max_len: usize) -> Word {
    let len = rng.below(max_len + 1);
    (0..len)
        .map(|_| {
            if rng.chance(1, 25) {
                0
            } else {
                // mostly small generator numbers, occasionally huge ones (comparison / negation edge cases)
                let g = if rng.chance(1, 60) { *rng.pick(&[1_000_000i64, 9_000_000_000, i64::MAX]) } else { rng.range(1, gens) };
                if rng.chance(1, 2) {
                    g
                } else {
                    -g
                }
            }
        })
        .collect()
}

fn random_history(rng: &mut Rng, len: usize, max_word: usize) -> Vec<Op> {
    let gens = rng.range(1, 3);
    let mut ops = vec![];
    // seed the pool
    for s in 0..SLOTS {
        let ml = if rng.chance(1, 6) { max_word } else { 6 };
        let w = random_word(rng, gens, ml);
        ops.push(if rng.chance(1, 2) { Op::New(s, w) } else { Op::From(s, w) });
    }
    for _ in 0..len {
        let a = rng.below(SLOTS);
        let b = rng.below(SLOTS);
        let d = rng.below(SLOTS);
        ops.push(match rng.below(15) {
            0 => { let w = random_word(rng, gens, 8); Op::New(d, w) }
            1 | 2 => Op::Mul(d, a, b, rng.below(4) as u8),
            3 => { let g = rng.range(-gens, gens); Op::MulGen(d, a, g, rng.below(2) as u8) }
            4 | 5 => Op::MulAssign(a, b),
            6 => Op::Inverse(d, a),
            7 => Op::Power(d, a, rng.range(-3, 4)),
            8 => Op::Commutator(d, a, b),
            9 | 10 => Op::Rotated(d, a, rng.range(-9, 9)),
            11 => Op::Compare(a, b),
            12 => Op::RelRep(a),
            13 => Op::RelPerms(a),
            _ => Op::NewLazy(d, a, b),
        });
    }
    ops
}

fn order_axioms(cfg: &Cfg) -> Ctx {
    // all reduced words of length <= 4 over 2 generators and <= 2 over 3 generators
    let mut words: BTreeSet<Word> = BTreeSet::new();
    for w in raw_words(&[-2, -1, 1, 2], cfg.tier.pick(3, 4)) {
        words.insert(reduce(&w));
    }
    for w in raw_words(&[-3, -2, -1, 1, 2, 3], cfg.tier.pick(2, 3)) {
        words.insert(reduce(&w));
    }
    for w in raw_words(&[-i64::MAX, -9_000_000_000, -1, 1, 9_000_000_000, i64::MAX], 2) {
        words.insert(reduce(&w));
    }
    let words: Vec<Word> = words.into_iter().collect();
    let lib: Vec<FreeWord> = words.iter().map(|w| to_freeword(w)).collect();
    let n = words.len();
    par_range(cfg, n, |ctx, a| {
        for b in 0..n {
            let cab = lib[a].cmp(&lib[b]);
            ctx.eval();
            if (cab == Ordering::Equal) != (a == b) {
                ctx.violation("cmp-equal-iff-same-word", "Ord for FreeWord", json!({"a": words[a], "b": words[b]}), json!(format!("{:?}", cab)), "Equal exactly for equal words");
            }
            if cab != lib[b].cmp(&lib[a]).reverse() {
                ctx.violation("cmp-antisymmetry", "Ord for FreeWord", json!({"a": words[a], "b": words[b]}), json!(format!("{:?}", cab)), "cmp(a,b) = reverse(cmp(b,a))");
            }
            if cab == Ordering::Less {
                for c in 0..n {
                    if lib[b].cmp(&lib[c]) == Ordering::Less && lib[a].cmp(&lib[c]) != Ordering::Less {
                        ctx.violation("cmp-transitivity", "Ord for FreeWord", json!({"a": words[a], "b": words[b], "c": words[c]}), json!("a<b, b<c, not a<c"), "transitive");
                    }
                }
                ctx.add("order.triples_checked", n as u64);
            }
        }
        if words[a].len() >= 2 {
            ctx.nontrivial(digest(&("order", &words[a])));
        }
    })
}

pub fn run(cfg: &Cfg) -> Report {
    let mut report = Report::new(cfg);
    crate::monitor::set_poison(|k| {
        let letters: Vec<isize> = vec![3, 1, -2, 2, 5, 6, 7];
        if k % 2 == 0 {
            let _ = FreeWord::new(crate::shapes::panicking(&letters, 2 + (k as usize / 2) % 4));
        } else {
            let _ = FreeWord::from(crate::shapes::panicking(&letters, 1 + (k as usize / 2) % 5));
        }
    });

    // Part A: exhaustive single operations over all raw letter sequences
    let raws = raw_words(&[-2, -1, 0, 1, 2], cfg.tier.pick(4, 5));
    let pair_raws = raw_words(&[-2, -1, 0, 1, 2], 3);
    let nr = raws.len();
    let ctx = par_range(cfg, nr, |ctx, k| {
        let w = &raws[k];
        let mut ops = vec![Op::New(0, w.clone()), Op::From(1, w.clone()), Op::Compare(0, 1), Op::Inverse(2, 0), Op::RelRep(0), Op::RelPerms(0)];
        for e in -2..=3 {
            ops.push(Op::Power(2, 0, e));
        }
        for i in -5..=5 {
            ops.push(Op::Rotated(2, 0, i));
            ops.push(Op::RelRep(2));
        }
        for g in [-2, -1, 0, 1, 2] {
            ops.push(Op::MulGen(2, 0, g, 0));
            ops.push(Op::MulGen(3, 0, g, 1));
            ops.push(Op::Compare(2, 3));
        }
        let (j, c) = run_history(ctx, &ops);
        ctx.evals(j);
        if c {
            ctx.nontrivial(digest(&("unary", w)));
        }
        ctx.sample(|| json!({"kind": "unary ops on raw letters", "letters": w}));
    });
    report.absorb(ctx);

    let np = pair_raws.len();
    let ctx = par_range(cfg, np * np, |ctx, k| {
        let (a, b) = (&pair_raws[k / np], &pair_raws[k % np]);
        let ops = vec![
            Op::New(0, a.clone()),
            Op::New(1, b.clone()),
            Op::Mul(2, 0, 1, 0),
            Op::Mul(3, 0, 1, 1),
            Op::Compare(2, 3),
            Op::Mul(3, 0, 1, 2),
            Op::Compare(2, 3),
            Op::Mul(3, 0, 1, 3),
            Op::Compare(2, 3),
            Op::MulAssign(0, 1),
            Op::Compare(0, 2),
            Op::RelRep(0),
            Op::RelPerms(0),
            Op::Inverse(3, 0),
            Op::New(0, a.clone()),
            Op::Commutator(2, 0, 1),
        ];
        let (j, c) = run_history(ctx, &ops);
        ctx.evals(j);
        if c {
            ctx.nontrivial(digest(&("binary", a, b)));
        }
    });
    report.absorb(ctx);

    // Part B: order axioms
    report.absorb(order_axioms(cfg));

    // Part C: random histories
    let nh = cfg.tier.pick(250_000, 5_000_000);
    let seed = cfg.seed;
    let ctx = par_range(cfg, nh, |ctx, k| {
        let mut rng = Rng::stream(seed, k as u64);
        let ops = random_history(&mut rng, 20, 200);
        let (j, c) = run_history(ctx, &ops);
        ctx.evals(j);
        ctx.count("random_histories");
        if c {
            ctx.nontrivial(digest(&("hist", seed, k)));
            ctx.count("random_histories_with_cancellation");
        }
        if k < 2 {
            ctx.sample(|| json!({"kind": "random history", "ops": ops.iter().map(|o| o.to_json()).collect::<Vec<_>>()}));
        }
    });
    report.absorb(ctx);

    // Part D: conjugates before their cores, on the same thread. A reduced word u c u^-1 is queried first,
    // then c, every rotation of c, its inverse and the rotations of the conjugate ("partial conjugates"):
    // the relator representative of each must be the least of *its own* rotations and inverses, whatever
    // was asked before (a seeded change memoised representatives per thread and shared them between a
    // non-cyclically-reduced word and its core).
    let nd = cfg.tier.pick(60_000, 1_000_000);
    let ctx = par_range(cfg, nd, |ctx, k| {
        let mut rng = Rng::stream(seed, 0x10_D000_0000 + k as u64);
        let gens = rng.range(2, 3);
        let letter = |rng: &mut Rng| {
            let g = rng.range(1, gens);
            if rng.chance(1, 2) { g } else { -g }
        };
        let len = 3 + rng.below(12);
        let mut c: Word = vec![];
        while c.len() < len {
            let l = letter(&mut rng);
            if c.last().map_or(true, |&p| p != -l) {
                c.push(l);
            }
        }
        while c.len() > 1 && c[0] == -c[c.len() - 1] {
            c.pop();
        }
        let mut u: Word = vec![];
        let ulen = 1 + rng.below(3);
        let mut guard = 0;
        while u.len() < ulen && guard < 100 {
            guard += 1;
            let l = letter(&mut rng);
            if u.last().map_or(true, |&p| p != -l) {
                u.push(l);
            }
        }
        // u must not cancel against c on either side (so that u c u^-1 is reduced as written)
        if u.is_empty() || *u.last().unwrap() == -c[0] || *u.last().unwrap() == c[c.len() - 1] {
            ctx.out_of_domain("conjugator cancels against the core");
            return;
        }
        let f = rng.below(4) as u8;
        let mut ops = vec![Op::New(0, c.clone()), Op::New(1, u.clone()), Op::Inverse(2, 1), Op::Mul(3, 1, 0, f), Op::Mul(3, 3, 2, f), Op::RelRep(3), Op::RelPerms(3), Op::RelRep(0), Op::RelPerms(0)];
        for i in 1..c.len() as i64 {
            ops.push(Op::Rotated(2, 0, i));
            ops.push(Op::RelRep(2));
        }
        ops.push(Op::Inverse(2, 0));
        ops.push(Op::RelRep(2));
        let cl = (c.len() + 2 * u.len()) as i64;
        for _ in 0..4 {
            ops.push(Op::Rotated(2, 3, rng.range(1, cl - 1)));
            ops.push(Op::RelRep(2));
            ops.push(Op::RelPerms(2));
        }
        ops.push(Op::RelRep(0));
        let (j, _) = run_history(ctx, &ops);
        ctx.evals(j);
        ctx.count("conjugate_before_core_histories");
        if c.len() + 2 * u.len() >= 8 {
            ctx.count("conjugate_before_core_histories_with_conjugate_length_8_or_more");
        }
        ctx.nontrivial(digest(&("conj", &c, &u)));
    });
    report.absorb(ctx);
    report.require_counter("conjugate_before_core_histories_with_conjugate_length_8_or_more", (nd / 4) as u64);

    report.rule = "cases: (A) every raw letter sequence over {-2..2} (0 included) up to the length bound, through every unary operation and, pairwise up to length 3, through all four Mul operand forms, *=, commutator; (B) order axioms on all triples of reduced words; (C) random operation histories of length 24 over a 4-slot pool with words up to length 200; (D) conjugate-before-core histories (u c u^-1 queried before c, its rotations, inverse and partial conjugates). Between judged cases the worker threads make abandoned constructor calls (input iterator that panics half way). A case is non-trivial when at least one free cancellation happened in it; distinct = distinct (kind, input) digests".into();
    report.explanation = "library value after every operation compared letter by letter with an independent free-group model (cancel-until-fixpoint); relator representative/permutations compared with the model's rotation set ordered by the library's own validated order".into();
    report.exhaustive = false;
    report.note("exhaustive_subuniverses", json!(["all raw letter sequences up to the length bound (unary ops)", "all pairs of raw sequences up to length 3 (binary ops)", "all ordered triples of reduced words (order axioms)"]));
    report.assume("random histories are sampled, not enumerated; words over at most 3 generators");
    report.require_counter("random_histories", (nh / 2) as u64);
    report.require_counter("random_histories_with_cancellation", (nh / 4) as u64);
    report.require_counter("order.triples_checked", 1000);
    report
}

pub fn replay(ctx: &mut Ctx, input: &Value) -> bool {
    if let Some(arr) = input.as_array() {
        let ops: Option<Vec<Op>> = arr.iter().map(Op::from_json).collect();
        if let Some(ops) = ops {
            run_history(ctx, &ops);
            return true;
        }
    }
    if input.get("a").is_some() {
        // order axiom witnesses: re-run the (cheap) order part at quick scope
        return false;
    }
    false
}
