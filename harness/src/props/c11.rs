//! C11 — coset enumeration returns the true coset table of the subgroup.

use super::groupcorpus;
use crate::bridge::*;
use crate::gen;
use crate::monitor::{digest, observe, par_items, Cfg, Ctx, Report};
use crate::oracle::groups::{self, inverse, reduce, Pres, Table, Word};
use crate::oracle::pi1;
use crate::rng::Rng;
use rust_dsymbols::fpgroups::cosets::{coset_representative, coset_table};
use serde_json::{json, Value};
use std::collections::VecDeque;

const ORACLE_ROWS: usize = 20_000;

#[derive(Clone)]
pub struct Case {
    pub name: String,
    pub pres: Pres,
    pub subgens: Vec<Word>,
    pub known_order: Option<usize>,
}

fn words_upto(ngens: usize, len: usize) -> Vec<Word> {
    let letters: Vec<i64> = (1..=ngens as i64).flat_map(|g| [g, -g]).collect();
    let mut out: Vec<Word> = vec![];
    let mut frontier: Vec<Word> = vec![vec![]];
    for _ in 0..len {
        let mut next = vec![];
        for w in &frontier {
            for &a in &letters {
                if w.last() != Some(&-a) {
                    let mut x = w.clone();
                    x.push(a);
                    next.push(x);
                }
            }
        }
        out.extend(next.iter().cloned());
        frontier = next;
    }
    out
}

/// Schreier generators of the stabiliser of row 0 of a transitive action.
pub fn schreier_generators(t: &Table) -> Vec<Word> {
    let n = t.rows();
    let mut word: Vec<Option<Word>> = vec![None; n];
    word[0] = Some(vec![]);
    let mut q = VecDeque::from([0usize]);
    while let Some(r) = q.pop_front() {
        for g in 1..=t.ngens as i64 {
            for s in [g, -g] {
                let a = t.act(r, s);
                if word[a].is_none() {
                    let mut w = word[r].clone().unwrap();
                    w.push(s);
                    word[a] = Some(w);
                    q.push_back(a);
                }
            }
        }
    }
    let mut gens = vec![];
    for r in 0..n {
        for g in 1..=t.ngens as i64 {
            let a = t.act(r, g);
            let mut w = word[r].clone().unwrap();
            w.push(g);
            w.extend(inverse(word[a].as_ref().unwrap()));
            let w = reduce(&w);
            if !w.is_empty() {
                gens.push(w);
            }
        }
    }
    gens.sort();
    gens.dedup();
    gens
}

pub fn judge(ctx: &mut Ctx, c: &Case) {
    let input = || json!({"group": c.name, "nr_gens": c.pres.ngens, "relators": c.pres.rels, "subgroup": c.subgens});
    // oracle index first; the library is only called when the index is known to be finite and moderate
    let oracle = match groups::todd_coxeter(&c.pres, &c.subgens, ORACLE_ROWS) {
        Some(t) => t,
        None => {
            ctx.out_of_domain("oracle-enumeration-did-not-finish (index infinite or beyond the bound)");
            return;
        }
    };
    if c.subgens.is_empty() {
        if let Some(o) = c.known_order {
            if oracle.rows() != o {
                ctx.inconclusive.push(format!("oracle Todd-Coxeter disagrees with the literature order for {}", c.name));
                return;
            }
        }
    }
    let index = oracle.rows();
    if index > 3000 {
        ctx.out_of_domain("index-above-3000");
        return;
    }
    ctx.eval();
    let rels = to_freewords(&c.pres.rels);
    let subs = to_freewords(&c.subgens);
    let ngens = c.pres.ngens;
    let r = observe(|| coset_table(ngens, &rels, &subs));
    let ct = match r {
        Ok(ct) => ct,
        Err(p) => {
            let clause = if p.msg.contains("coset table limit") { "row-limit-reached-on-a-finite-index-subgroup".to_string() } else { format!("panic@{}", p.short_loc()) };
            ctx.violation(&clause, "cosets::coset_table", input(), json!({"panic": p.msg, "at": p.loc, "true_index": index}), "the coset table with exactly [G:H] rows");
            return;
        }
    };
    let table = match from_coset_table(&ct) {
        Some(t) => t,
        None => {
            ctx.violation("table-incomplete", "cosets::coset_table", input(), json!({"rows": ct.len()}), "every generator defined on every row");
            return;
        }
    };
    let mut bad: Vec<(&str, Value)> = vec![];
    if !table.is_valid_action() {
        bad.push(("generators-are-not-mutually-inverse-permutations", json!({"table": table.t})));
    } else {
        if !table.is_transitive() {
            bad.push(("action-not-transitive", json!({"table": table.t})));
        }
        if !table.satisfies(&c.pres.rels) {
            bad.push(("relator-moves-a-row", json!({"rows": table.rows()})));
        }
        for w in &c.subgens {
            if table.trace(0, w) != 0 {
                bad.push(("subgroup-generator-moves-row-0", json!({"generator": w, "row_0_goes_to": table.trace(0, w), "rows": table.rows()})));
                break;
            }
        }
        if table.rows() != index {
            bad.push(("row-count-differs-from-index", json!({"rows": table.rows(), "index": index})));
        }
    }
    // coset representatives
    let r = observe(|| coset_representative(&ct));
    match r {
        Ok(reps) => {
            if table.is_valid_action() {
                for k in 0..table.rows() {
                    match reps.get(&k) {
                        None => {
                            bad.push(("representative-missing", json!({"row": k})));
                            break;
                        }
                        Some(w) => {
                            let w = from_freeword(w);
                            if table.trace(0, &w) != k {
                                bad.push(("representative-does-not-lead-to-its-row", json!({"row": k, "word": w, "ends_in": table.trace(0, &w)})));
                                break;
                            }
                        }
                    }
                }
            }
        }
        Err(p) => bad.push(("representatives-panic", p.to_json())),
    }
    for (clause, o) in bad {
        ctx.violation(clause, if clause.starts_with("representative") { "cosets::coset_representative" } else { "cosets::coset_table" }, input(), o, "true coset table of the subgroup; representatives trace from row 0 to their row");
    }
    // non-trivial: neither trivial nor whole group nor normal
    if index > 1 && !c.subgens.is_empty() {
        let normal = (0..index).all(|r| c.subgens.iter().all(|w| oracle.trace(r, w) == r));
        if !normal {
            ctx.count("non_normal_subgroups");
            ctx.nontrivial(digest(&(&c.pres.rels, &c.subgens)));
        }
    }
    ctx.count("enumerations_judged");
}

pub fn build_cases(cfg: &Cfg) -> Vec<Case> {
    let seed = cfg.seed;
    let mut cases: Vec<Case> = vec![];
    let mut rng = Rng::stream(seed, 0x11);
    for g in groupcorpus::corpus() {
        let n = g.pres.ngens;
        let base = Case { name: g.name.to_string(), pres: g.pres.clone(), subgens: vec![], known_order: g.order };
        let finite = groups::order(&g.pres, 3000);
        if finite.is_some() {
            cases.push(base.clone());
        }
        // whole group
        cases.push(Case { subgens: (1..=n as i64).map(|x| vec![x]).collect(), ..base.clone() });
        // degenerate but legal inputs: a generating word that is empty (the identity), an empty relator
        if finite.is_some() {
            cases.push(Case { name: format!("{} + empty subgroup generator", g.name), subgens: vec![vec![], vec![1]], ..base.clone() });
            cases.push(Case { name: format!("{} + only an empty subgroup generator", g.name), subgens: vec![vec![]], ..base.clone() });
            let mut p2 = g.pres.clone();
            p2.rels.insert(0, vec![]);
            p2.rels.push(vec![1, -1]);
            cases.push(Case { name: format!("{} + empty relators", g.name), pres: p2, subgens: vec![], known_order: g.order });
        }
        let words = words_upto(n, 3);
        if finite.is_some() {
            // all one-generator subgroups, sampled two-generator subgroups
            let limit1 = cfg.tier.pick(120, 400);
            for w in words.iter().take(limit1) {
                cases.push(Case { subgens: vec![w.clone()], ..base.clone() });
            }
            for _ in 0..cfg.tier.pick(250, 600) {
                let a = words[rng.below(words.len())].clone();
                let b = words[rng.below(words.len())].clone();
                cases.push(Case { subgens: vec![a, b], ..base.clone() });
            }
            for _ in 0..cfg.tier.pick(20, 80) {
                let len = 4 + rng.below(8);
                let w: Word = (0..len).map(|_| { let g = rng.range(1, n as i64); if rng.chance(1, 2) { g } else { -g } }).collect();
                cases.push(Case { subgens: vec![reduce(&w)].into_iter().filter(|w| !w.is_empty()).collect(), ..base.clone() });
            }
        }
        // finite-index subgroups of any group (finite or not) through Schreier generators of low-index actions
        let k = if n <= 2 { cfg.tier.pick(5, 7) } else { cfg.tier.pick(4, 5) };
        if let Some(tables) = groups::low_index(&g.pres, k, 200_000) {
            for t in tables.iter().take(cfg.tier.pick(40, 200)) {
                let sg = schreier_generators(t);
                if !sg.is_empty() {
                    cases.push(Case { name: format!("{} / stabiliser of an index-{} action", g.name, t.rows()), pres: g.pres.clone(), subgens: sg, known_order: None });
                }
            }
        }
    }
    // hostile presentations (late collapse, redundant and trivial generators) with multi-generator subgroups
    for (name, p) in groupcorpus::hostile_presentations(seed, cfg.tier.pick(10000, 120000)) {
        let n = p.ngens;
        let fin = groups::order(&p, 3000).is_some();
        if fin {
            cases.push(Case { name: name.clone(), pres: p.clone(), subgens: vec![], known_order: None });
        }
        let words = words_upto(n, 3);
        for _ in 0..cfg.tier.pick(3, 8) {
            let k = 1 + rng.below(3);
            let subs: Vec<Word> = (0..k).map(|_| words[rng.below(words.len())].clone()).collect();
            cases.push(Case { name: name.clone(), pres: p.clone(), subgens: subs, known_order: None });
        }
    }
    // larger finite groups with subgroups generated by 2-3 long words (coincidence cascades)
    for g in groupcorpus::corpus() {
        if let Some(o) = g.order {
            let mixed = g.pres.rels.iter().any(|w| w.iter().any(|&x| x > 0) && w.iter().any(|&x| x < 0));
            if (o >= 48 || (o >= 12 && mixed)) && o <= 1200 {
                let n = g.pres.ngens as i64;
                for _ in 0..cfg.tier.pick(150, 1500) {
                    let k = 2 + rng.below(2);
                    let subs: Vec<Word> = (0..k)
                        .map(|_| {
                            let len = if rng.chance(1, 2) { 2 + rng.below(4) } else { 6 + rng.below(25) };
                            reduce(&(0..len).map(|_| { let x = rng.range(1, n); if rng.chance(1, 2) { x } else { -x } }).collect::<Word>())
                        })
                        .filter(|w| !w.is_empty())
                        .collect();
                    cases.push(Case { name: g.name.to_string(), pres: g.pres.clone(), subgens: subs, known_order: g.order });
                }
            }
        }
    }
    // random presentations: small groups with many coincidences
    for (k, p) in groupcorpus::random_presentations(seed, cfg.tier.pick(20000, 250000)).into_iter().enumerate() {
        if groups::order(&p, 2000).is_some() {
            let n = p.ngens;
            cases.push(Case { name: format!("random presentation #{}", k), pres: p.clone(), subgens: vec![], known_order: None });
            let words = words_upto(n, 2);
            for _ in 0..2 {
                let a = words[rng.below(words.len())].clone();
                let b = words[rng.below(words.len())].clone();
                cases.push(Case { name: format!("random presentation #{}", k), pres: p.clone(), subgens: if rng.chance(1, 2) { vec![a] } else { vec![a, b] }, known_order: None });
            }
        }
    }
    // fundamental groups of spherical 2D symbols: the library's reduced presentation and the
    // redundant textbook presentation (one generator per chamber facet)
    let mut count = 0;
    for s in gen::connected_sets_upto(2, cfg.tier.pick(4, 5)) {
        gen::for_all_branchings(&s, &|_, _| vec![1, 2, 3, 4, 5], &mut |x| {
            if gen::is_spherical_2d(x) && count < cfg.tier.pick(600, 4000) {
                count += 1;
                let red = pi1::textbook_pi1(x);
                cases.push(Case { name: format!("pi1 of {} (reduced textbook presentation)", x.to_text()), pres: red.pres.clone(), subgens: vec![], known_order: None });
                cases.push(Case { name: format!("pi1 of {} (redundant textbook presentation)", x.to_text()), pres: pi1::textbook_pi1_redundant(x), subgens: vec![], known_order: None });
                if let Ok(fg) = observe(|| {
                    let fg = rust_dsymbols::fundamental_group::fundamental_group(&to_partial_dsym(x));
                    Pres { ngens: fg.nr_generators(), rels: from_freewords(fg.relators.iter()) }
                }) {
                    cases.push(Case { name: format!("pi1 of {} (library presentation)", x.to_text()), pres: fg, subgens: vec![], known_order: None });
                }
            }
        });
    }
    cases
}

pub fn run(cfg: &Cfg) -> Report {
    let mut report = Report::new(cfg);
    // abandoned calls between judged cases: relators and subgroup generators that mention a generator the group
    // does not have
    crate::monitor::set_poison(|k| {
        let rels = to_freewords(&[vec![1, 1, 1], vec![2, 1, -2, -1]]);
        let subs = to_freewords(&[vec![1, 3]]);
        if k % 2 == 0 {
            let _ = coset_table(1, &rels, &to_freewords(&[vec![1]]));
        } else {
            let _ = coset_table(2, &to_freewords(&[vec![1, 1], vec![2, 2, 2], vec![1, 2, 1, 2]]), &subs);
        }
    });
    let cases = build_cases(cfg);
    let ctx = par_items(cfg, &cases, |ctx, k, c| {
        judge(ctx, c);
        if k % 400 == 0 {
            ctx.sample(|| json!({"group": c.name, "nr_gens": c.pres.ngens, "relators": c.pres.rels, "subgroup": c.subgens}));
        }
    });
    report.absorb(ctx);
    report.rule = "presentations with independently known orders (cyclic, abelian, dihedral, Q8, polyhedral and Coxeter groups A3 B3 H3 A4 B4 F4, deliberately redundant and coincidence-heavy presentations of small groups) and infinite groups (free, Z^2, Z^3, surface, triangle, wallpaper); subgroups: trivial, whole group, every word of length <= 3 as a single generator, sampled pairs and long random words, and Schreier generators of the stabilisers of all low-index actions found by the oracle (finite index in infinite groups, mostly non-normal); fundamental groups of spherical 2D symbols in three presentations incl. the redundant textbook one. Non-trivial = subgroup that is neither trivial, nor the whole group, nor normal; distinct = distinct (relators, subgroup generators) digests".into();
    report.explanation = "index from the harness's own HLT Todd-Coxeter with complete coincidence processing (and the literature order for the trivial subgroup); the returned table is re-read through len/get and checked for: complete, mutually inverse permutations, transitive, every relator fixes every row, every subgroup generator fixes row 0, row count = index; representatives traced from row 0".into();
    report.assume("the library is only called when the oracle has established a finite index <= 3000");
    report.require_counter("enumerations_judged", 500);
    report.require_counter("non_normal_subgroups", 200);
    report.require_hook("cosets.coincidence", 1);
    report.require_hook("cosets.deduction", 1);
    report
}

pub fn replay(ctx: &mut Ctx, input: &Value) -> bool {
    let pres = match pres_from_json(input) {
        Some(p) => p,
        None => return false,
    };
    let subgens: Vec<Word> = input.get("subgroup").and_then(|x| x.as_array()).map(|a| a.iter().map(|w| w.as_array().map(|l| l.iter().filter_map(|x| x.as_i64()).collect()).unwrap_or_default()).collect()).unwrap_or_default();
    let name = input.get("group").and_then(|x| x.as_str()).unwrap_or("").to_string();
    judge(ctx, &Case { name, pres, subgens, known_order: None });
    true
}
