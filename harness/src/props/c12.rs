//! C12 — low-index enumeration lists each subgroup conjugacy class exactly once.

use super::groupcorpus;
use crate::bridge::*;
use crate::gen;
use crate::monitor::{digest, observe, par_items, Cfg, Ctx, Report};
use crate::oracle::groups::{self, Pres, Table};
use crate::oracle::pi1;
use crate::rng::Rng;
use crate::shapes;
use rust_dsymbols::fpgroups::cosets::coset_tables;
use serde_json::{json, Value};
use std::collections::BTreeMap;

#[derive(Clone)]
pub struct Case {
    pub name: String,
    pub pres: Pres,
    pub k: usize,
    /// budget (number of generator-image tuples) for the brute-force homomorphism count
    pub bf_limit: f64,
}

/// Runs the library enumeration and returns the tables (as oracle-side tables).
pub fn lib_tables(ctx: &mut Ctx, c: &Case, input: &dyn Fn() -> Value) -> Option<Vec<Table>> {
    let rels = to_freewords(&c.pres.rels);
    let (n, k) = (c.pres.ngens, c.k);
    // a nearly free group has millions of subgroup classes of small index: such a case is not judged (a straggler
    // of that kind kept one worker busy for more than an hour and 6 GB in a thorough run)
    const MAX_TABLES: usize = 150_000;
    let r = observe(|| coset_tables(n, &rels, k).take(MAX_TABLES + 1).map(|t| (t.len(), from_coset_table(&t))).collect::<Vec<_>>());
    let raw = ctx.no_panic("cosets::coset_tables", input, r)?;
    if raw.len() > MAX_TABLES {
        ctx.out_of_domain("more-than-150000-subgroup-classes-below-the-index-bound");
        return None;
    }
    // the enumeration is an Iterator: the tables must not depend on how the caller drives it
    if raw.len() <= 400 && raw.iter().all(|(_, t)| t.is_some()) {
        let key = |len: usize, t: &Option<Table>| format!("{} {:?}", len, t.as_ref().map(|t| &t.t));
        let plain: Vec<String> = raw.iter().map(|(l, t)| key(*l, t)).collect();
        let h = digest(&(&c.pres.rels, n, k));
        let mode = (h % shapes::CONSUME_MODES as u64) as usize;
        let mut rng = Rng::stream(h, 12);
        match observe(|| shapes::consume(coset_tables(n, &rels, k), plain.len(), mode, &mut rng)) {
            Ok(cons) => {
                ctx.count("consumption_modes_compared_with_plain_next");
                if let Some(problem) = shapes::judge_consumed(&cons, &plain, |t| key(t.len(), &from_coset_table(t))) {
                    ctx.violation("output-depends-on-how-the-iterator-is-driven", "cosets::coset_tables as Iterator", input(), json!({"mode": cons.mode, "problem": problem}), "the same tables in the same order whichever Iterator methods the caller uses");
                }
            }
            Err(p) => ctx.violation(&format!("panic@{}", p.short_loc()), "cosets::coset_tables as Iterator", input(), json!({"mode": mode, "panic": p.to_json()}), "no panic"),
        }
    }
    let mut out = vec![];
    for (pos, (len, t)) in raw.into_iter().enumerate() {
        match t {
            Some(t) => out.push(t),
            None => {
                ctx.violation("table-incomplete", "cosets::coset_tables", input(), json!({"position": pos, "rows": len}), "complete coset tables");
                return None;
            }
        }
    }
    Some(out)
}

pub fn judge(ctx: &mut Ctx, c: &Case) {
    let input = || json!({"group": c.name, "nr_gens": c.pres.ngens, "relators": c.pres.rels, "max_index": c.k});
    ctx.eval();
    let tables = match lib_tables(ctx, c, &input) {
        Some(t) => t,
        None => return,
    };
    // each table: valid, <= k rows, transitive, relators fix every row
    let mut canon: BTreeMap<Vec<Vec<usize>>, usize> = BTreeMap::new();
    let mut per_index = vec![0usize; c.k + 1];
    for (pos, t) in tables.iter().enumerate() {
        let mut problem: Option<&str> = None;
        if t.rows() == 0 || t.rows() > c.k {
            problem = Some("row count outside 1..=k");
        } else if !t.is_valid_action() {
            problem = Some("generators are not mutually inverse permutations");
        } else if !t.is_transitive() {
            problem = Some("action is not transitive");
        } else if !t.satisfies(&c.pres.rels) {
            problem = Some("a relator moves a row");
        }
        if let Some(p) = problem {
            ctx.violation("enumerated-table-invalid", "cosets::coset_tables", input(), json!({"position": pos, "table": t.t, "problem": p}), "complete tables with <= k rows, transitive, every relator fixes every row");
            return;
        }
        if let Some(prev) = canon.insert(t.canonical(), pos) {
            ctx.violation("two-enumerated-tables-are-equivalent", "cosets::coset_tables", input(), json!({"positions": [prev, pos], "table": t.t}), "pairwise inequivalent as actions");
            return;
        }
        per_index[t.rows()] += 1;
    }
    // count per index: ground truth by brute-force homomorphisms where affordable, else own low-index
    let mut expected: Vec<Option<usize>> = vec![None; c.k + 1];
    let mut truth_source = "low_index oracle";
    let li = groups::low_index_profile(&c.pres, c.k, 1_000_000);
    for n in 1..=c.k {
        if let Some(x) = groups::classes_of_index_bf(&c.pres, n, c.bf_limit) {
            expected[n] = Some(x);
            if let Some(prof) = &li {
                if prof[n - 1] != x {
                    ctx.inconclusive.push(format!("oracle disagreement (brute-force homomorphisms vs low-index) for {} at index {}", c.name, n));
                    return;
                }
            }
            truth_source = "brute-force homomorphisms into S_n (cross-checked with the low-index oracle)";
        } else if let Some(prof) = &li {
            expected[n] = Some(prof[n - 1]);
        }
    }
    let mut judged_any = false;
    for n in 1..=c.k {
        if let Some(x) = expected[n] {
            judged_any = true;
            if per_index[n] != x {
                ctx.violation(
                    "number-of-classes-differs",
                    "cosets::coset_tables",
                    input(),
                    json!({"index": n, "enumerated": per_index[n], "conjugacy_classes_of_subgroups": x, "ground_truth": truth_source, "profile_enumerated": per_index[1..].to_vec()}),
                    "exactly one table per conjugacy class of subgroups of index <= k",
                );
                return;
            }
        }
    }
    if !judged_any {
        ctx.out_of_domain("no-ground-truth-within-budget");
        return;
    }
    ctx.count("presentations_judged");
    if (3..=c.k).any(|n| per_index[n] >= 2) {
        ctx.nontrivial(digest(&(&c.pres.rels, c.pres.ngens, c.k)));
        ctx.count("with_two_classes_at_some_index_ge_3");
    }
}

pub fn build_cases(cfg: &Cfg) -> Vec<Case> {
    let mut cases = vec![];
    for g in groupcorpus::corpus() {
        let n = g.pres.ngens;
        let k = match n {
            0 | 1 => cfg.tier.pick(6, 8),
            2 => cfg.tier.pick(5, 7),
            3 => cfg.tier.pick(4, 5),
            _ => cfg.tier.pick(3, 4),
        };
        for kk in 1..=k {
            cases.push(Case { name: g.name.to_string(), pres: g.pres.clone(), k: kk, bf_limit: 3.0e6 });
        }
    }
    // degenerate but legal: presentations containing an empty relator
    for g in groupcorpus::corpus().into_iter().take(12) {
        let mut p2 = g.pres.clone();
        p2.rels.insert(0, vec![]);
        cases.push(Case { name: format!("{} + empty relator", g.name), pres: p2, k: 3, bf_limit: 3.0e6 });
    }
    // redundant generators: a trivial generator (relator of length 1, also its square and fourth power, as
    // the library's own presentations of orbifold groups contain them) inserted as generator 1 or as the
    // last generator - the shape that makes deductions fill later rows before earlier ones
    for g in groupcorpus::corpus().into_iter().filter(|g| g.pres.ngens <= 2).take(cfg.tier.pick(16, 40)) {
        let n = g.pres.ngens as i64;
        // trivial generator first: shift all others up by one
        let mut rels: Vec<Vec<i64>> = vec![vec![1], vec![1, 1], vec![1, 1, 1, 1]];
        rels.extend(g.pres.rels.iter().map(|w| w.iter().map(|&x| if x > 0 { x + 1 } else { x - 1 }).collect::<Vec<i64>>()));
        cases.push(Case { name: format!("{} with a trivial generator inserted first", g.name), pres: Pres { ngens: g.pres.ngens + 1, rels }, k: cfg.tier.pick(4, 5), bf_limit: 3.0e6 });
        let mut rels2 = g.pres.rels.clone();
        rels2.push(vec![n + 1]);
        cases.push(Case { name: format!("{} with a trivial generator appended", g.name), pres: Pres { ngens: g.pres.ngens + 1, rels: rels2 }, k: cfg.tier.pick(4, 5), bf_limit: 3.0e6 });
    }
    // cyclic groups with a trivial extra generator, the shape of the library's own presentation of the group
    // of <1.1:4 3:2 4,2 4,3 4,3 4:4 1,4,4 4> (Z4 = <a,b | a, a^2, a^4, b^4>)
    for n in 2..=cfg.tier.pick(7, 10) {
        let pw = |g: i64, k: usize| -> Vec<i64> { vec![g; k] };
        cases.push(Case { name: format!("Z{} = <a,b | a, a^2, a^4, b^{}>", n, n), pres: Pres { ngens: 2, rels: vec![vec![1], pw(1, 2), pw(1, 4), pw(2, n)] }, k: n.min(cfg.tier.pick(6, 8)), bf_limit: 3.0e6 });
        cases.push(Case { name: format!("Z{} = <a,b | a^{}, b>", n, n), pres: Pres { ngens: 2, rels: vec![pw(1, n), vec![2]] }, k: n.min(cfg.tier.pick(6, 8)), bf_limit: 3.0e6 });
        cases.push(Case { name: format!("Z{} = <a,b,c | a, b^{}, c>", n, n), pres: Pres { ngens: 3, rels: vec![vec![1], pw(2, n), vec![3]] }, k: n.min(5), bf_limit: 3.0e6 });
    }
    // rotation groups (fundamental groups of oriented covers: no involutory mirror generators) at high
    // index bounds, where a deduction at the row being scanned matters
    {
        let mut count = 0;
        for s in gen::connected_sets_upto(2, 3) {
            gen::for_all_branchings(&s, &|_, _| vec![1, 2, 3, 4, 6], &mut |x| {
                count += 1;
                if count % cfg.tier.pick(7, 2) != 0 {
                    return;
                }
                let ori = if x.is_oriented() { x.clone() } else { x.double_cover_by_cocycle(&|_, _| true) };
                if !ori.is_valid_symbol() || !ori.is_connected() {
                    return;
                }
                if let Ok(fg) = observe(|| {
                    let fg = rust_dsymbols::fundamental_group::fundamental_group(&to_partial_dsym(&ori));
                    Pres { ngens: fg.nr_generators(), rels: from_freewords(fg.relators.iter()) }
                }) {
                    if fg.ngens >= 2 && fg.ngens <= 3 {
                        cases.push(Case { name: format!("rotation group of {} (library presentation)", x.to_text()), pres: fg, k: cfg.tier.pick(7, 9), bf_limit: 3.0e6 });
                    }
                }
            });
        }
        for t in ["<1.1:2 3:2,2,2,2:3,4,4>", "<1.1:1 3:1,1,1,1:4,3,4>", "<1.1:2 3:2,1 2,1 2,2:6,3 2,6>"] {
            let m = msym_from_text(t).unwrap();
            let ori = m.double_cover_by_cocycle(&|_, _| true);
            if let Ok(fg) = observe(|| {
                let fg = rust_dsymbols::fundamental_group::fundamental_group(&to_partial_dsym(&ori));
                Pres { ngens: fg.nr_generators(), rels: from_freewords(fg.relators.iter()) }
            }) {
                if fg.ngens <= 4 {
                    cases.push(Case { name: format!("rotation group of 3D symbol {} (library presentation)", t), pres: fg, k: cfg.tier.pick(7, 9), bf_limit: 3.0e6 });
                }
            }
        }
    }
    // three generators one of which is redundant (defined by a relator as a word in the others), index 5:
    // ground truth from the harness's low-index search (brute force only up to index 4 here)
    {
        let mut rng = crate::rng::Rng::stream(cfg.seed, 0x12_3);
        for k in 0..cfg.tier.pick(2500, 40_000) {
            let g = 1 + rng.below(2) as i64; // generator with a power relator
            let p = 2 + rng.below(5);
            let h = if rng.chance(1, 2) { 3 - g } else { g }; // generator expressed through the others
            let len = 3 + rng.below(4);
            let mut w: Vec<i64> = vec![-h];
            let pos_c = rng.below(len);
            for t in 0..len {
                if t == pos_c {
                    w.push(if rng.chance(1, 2) { 3 } else { -3 });
                } else {
                    let x = *rng.pick(&[1i64, 2, 3]);
                    w.push(if rng.chance(1, 2) { x } else { -x });
                }
            }
            let w = crate::oracle::groups::reduce(&w);
            let mut rels = vec![vec![g; p], w];
            if rng.chance(1, 3) {
                rels.remove(0);
            }
            cases.push(Case { name: format!("3 generators with a redundant one #{}", k), pres: Pres { ngens: 3, rels }, k: 5, bf_limit: 2.0e4 });
        }
        for (name, p) in groupcorpus::hostile_presentations(cfg.seed, cfg.tier.pick(200, 5000)) {
            let k = if p.ngens == 3 { 5 } else { cfg.tier.pick(5, 6) };
            cases.push(Case { name, pres: p, k, bf_limit: 2.0e5 });
        }
    }
    // random presentations
    for (k, p) in groupcorpus::random_presentations(cfg.seed, cfg.tier.pick(400, 10000)).into_iter().enumerate() {
        let kk = if p.ngens == 2 { cfg.tier.pick(4, 5) } else { 3 };
        cases.push(Case { name: format!("random presentation #{}", k), pres: p, k: kk, bf_limit: 3.0e6 });
    }
    // Z^4
    let mut z4 = vec![];
    for a in 1..=4i64 {
        for b in (a + 1)..=4 {
            z4.push(vec![a, b, -a, -b]);
        }
    }
    cases.push(Case { name: "Z^4".into(), pres: Pres { ngens: 4, rels: z4 }, k: cfg.tier.pick(2, 3), bf_limit: 3.0e6 });
    // fundamental groups of 2D symbols (euclidean ones give the wallpaper groups) and small 3D symbols,
    // in the library's own presentation (the one its clients enumerate) and the reduced textbook one
    let mut count = 0;
    for s in gen::connected_sets_upto(2, cfg.tier.pick(3, 4)) {
        gen::for_all_branchings(&s, &|_, _| vec![1, 2, 3, 4, 6], &mut |x| {
            let k = crate::oracle::orbifold::curvature(x).sign();
            if k <= 0 && count < cfg.tier.pick(500, 3000) {
                count += 1;
                let tb = pi1::textbook_pi1(x);
                if tb.pres.ngens <= 4 {
                    cases.push(Case { name: format!("pi1 of {} (reduced textbook presentation)", x.to_text()), pres: tb.pres.clone(), k: 3, bf_limit: 3.0e6 });
                }
                if let Ok(fg) = observe(|| {
                    let fg = rust_dsymbols::fundamental_group::fundamental_group(&to_partial_dsym(x));
                    Pres { ngens: fg.nr_generators(), rels: from_freewords(fg.relators.iter()) }
                }) {
                    if fg.ngens <= 4 {
                        cases.push(Case { name: format!("pi1 of {} (library presentation)", x.to_text()), pres: fg, k: cfg.tier.pick(3, 4), bf_limit: 3.0e6 });
                    }
                }
            }
        });
    }
    let mut count3 = 0;
    for s in gen::connected_sets_upto(3, cfg.tier.pick(3, 4)) {
        gen::for_all_branchings(&s, &|_, _| vec![1, 2, 3, 4, 6], &mut |x| {
            if gen::locally_spherical_3d(x) && { count3 += 1; count3 % cfg.tier.pick(5, 9) == 0 } {
                if let Ok(fg) = observe(|| {
                    let fg = rust_dsymbols::fundamental_group::fundamental_group(&to_partial_dsym(x));
                    Pres { ngens: fg.nr_generators(), rels: from_freewords(fg.relators.iter()) }
                }) {
                    if fg.ngens <= 5 {
                        cases.push(Case { name: format!("pi1 of 3D symbol {} (library presentation)", x.to_text()), pres: fg, k: 3, bf_limit: 3.0e6 });
                    }
                }
            }
        });
    }
    cases
}

pub fn run(cfg: &Cfg) -> Report {
    let mut report = Report::new(cfg);
    // abandoned enumerations between judged cases: a relator that mentions a generator the group does not have;
    // an enumeration dropped after its first table
    crate::monitor::set_poison(|k| {
        if k % 2 == 0 {
            let rels = to_freewords(&[vec![1, 1, 1], vec![2, 1, -2, -1]]);
            let _ = coset_tables(1, &rels, 3).take(3).count();
        } else {
            let rels = to_freewords(&[vec![1, 1], vec![2, 2, 2], vec![1, 2, 1, 2]]);
            let _ = coset_tables(2, &rels, 6).next();
        }
    });
    let mut cases = build_cases(cfg);
    cases.sort_by_key(|c| std::cmp::Reverse(c.k * c.pres.ngens));
    let ctx = par_items(cfg, &cases, |ctx, k, c| {
        judge(ctx, c);
        if k % 150 == 0 {
            ctx.sample(|| json!({"group": c.name, "nr_gens": c.pres.ngens, "relators": c.pres.rels, "max_index": c.k}));
        }
    });
    report.absorb(ctx);
    report.rule = "every presentation of the group corpus (finite groups with known orders, free groups, Z^2, Z^3, Z^4, surface groups, triangle groups, wallpaper groups, BS(1,2), ...) at every index bound 1..k (k = 4-6 for <= 2 generators, 4-5 for 3, 3-4 for more), fundamental groups of euclidean/hyperbolic 2D symbols and of small locally spherical 3D symbols in the library's own and in the textbook presentation. Non-trivial = presentation with >= 2 classes at some index >= 3; distinct = distinct (relators, bound) digests".into();
    report.explanation = "each table validated (complete, <= k rows, transitive, relators fix every row), pairwise inequivalence by canonical forms of the actions (minimum over all base points of the BFS-standardised table), number of classes per index compared with brute-force enumeration of all homomorphisms into S_n up to conjugacy where (n!)^gens <= 3e6 and with the harness's own low-index search otherwise (the two oracles are cross-checked wherever both run)".into();
    report.assume("index bounds as stated; beyond the brute-force range the count rests on the harness's low-index oracle");
    report.require_counter("presentations_judged", 100);
    report.require_counter("with_two_classes_at_some_index_ge_3", 20);
    report.require_hook("cosets.lowindex.deduction", 1);
    report.require_hook("cosets.lowindex.contradiction", 1);
    report.require_hook("cosets.lowindex.noncanonical", 1);
    report
}

pub fn replay(ctx: &mut Ctx, input: &Value) -> bool {
    let pres = match pres_from_json(input) {
        Some(p) => p,
        None => return false,
    };
    let k = input.get("max_index").and_then(|x| x.as_u64()).unwrap_or(3) as usize;
    let name = input.get("group").and_then(|x| x.as_str()).unwrap_or("").to_string();
    judge(ctx, &Case { name, pres, k, bf_limit: 3.0e6 });
    true
}
