//! C14 — abelian invariants are the invariant factors of the relation lattice.

use crate::bridge::to_freewords;
use crate::monitor::{digest, observe, par_range, Cfg, Ctx, Report};
use crate::oracle::groups::{concat, inverse, rotate, Word};
use crate::oracle::snf;
use crate::rng::Rng;
use crate::shapes;
use num_bigint::BigInt;
use num_traits::{One, ToPrimitive, Zero};
use rust_dsymbols::fpgroups::invariants::{abelian_invariants, relator_as_vector};
use serde_json::{json, Value};

/// A word with the given exponent sums, in one of several renderings.
fn word_for_row(row: &[i64], style: usize, rng: &mut Rng) -> Word {
    let n = row.len();
    let mut w: Word = vec![];
    match style % 3 {
        0 => {
            // blocks g1^a1 g2^a2 ...
            for g in 0..n {
                let s = if row[g] >= 0 { 1 } else { -1 };
                for _ in 0..row[g].abs() {
                    w.push(s * (g as i64 + 1));
                }
            }
        }
        1 => {
            // reverse order of generators
            for g in (0..n).rev() {
                let s = if row[g] >= 0 { 1 } else { -1 };
                for _ in 0..row[g].abs() {
                    w.push(s * (g as i64 + 1));
                }
            }
        }
        _ => {
            // shuffled letters plus an inserted commutator (exponent sums unchanged)
            for g in 0..n {
                let s = if row[g] >= 0 { 1 } else { -1 };
                for _ in 0..row[g].abs() {
                    w.push(s * (g as i64 + 1));
                }
            }
            rng.shuffle(&mut w);
            if n >= 2 {
                let a = rng.range(1, n as i64);
                let mut b = rng.range(1, n as i64);
                if b == a {
                    b = a % n as i64 + 1;
                }
                let pos = rng.below(w.len() + 1);
                let comm = vec![a, b, -a, -b];
                let mut x = w[..pos].to_vec();
                x.extend(comm);
                x.extend_from_slice(&w[pos..]);
                w = x;
            }
        }
    }
    w
}

/// A panic inside abelian_invariants. The isize overflow of the elimination is a KNOWN FINDING that is
/// identified by its call site (DESIGN.md 12.3): such violations are keyed on `file:line` only (the
/// failing presentation goes into `observed`), so that known_findings.txt can list the call sites;
/// every other panic is keyed on the exact input as usual.
fn report_panic(ctx: &mut Ctx, p: &crate::monitor::PanicInfo, input: Value) {
    if p.msg.contains("overflow") && p.short_loc().starts_with("src/fpgroups/invariants.rs:") {
        ctx.violation(
            "isize-overflow-in-diagonalisation",
            "abelian_invariants",
            json!({"call_site": p.short_loc()}),
            json!({"panic": p.msg, "presentation": input}),
            "the invariant factors for any list of relators (no arithmetic overflow)",
        );
    } else {
        ctx.violation(&format!("panic@{}", p.short_loc()), "abelian_invariants", input, p.to_json(), "no panic on an in-domain input");
    }
}

fn expected(n: usize, rels: &[Word]) -> Vec<BigInt> {
    snf::abelian_invariants_of_presentation(n, rels)
}

fn to_big(v: &[usize]) -> Vec<BigInt> {
    v.iter().map(|&x| BigInt::from(x)).collect()
}

/// The form in which the relators are handed to the library (slice iterator, filter, chain, an iterator
/// without any size hint, ...) is a function of the presentation, so a replay makes the same call.
fn shape_of(n: usize, rels: &[Word]) -> usize {
    (digest(&(n, rels)) % shapes::INPUT_SHAPES as u64) as usize
}

/// Abandoned and invalid calls made between judged cases (see monitor::set_poison).
fn poison(k: u64) {
    let ws = to_freewords(&[vec![1, 2, 2], vec![2, 2, 2, -1], vec![1, 1, 2]]);
    match k % 3 {
        0 => {
            let _ = abelian_invariants(2, shapes::panicking_refs(&ws, 1 + (k as usize / 3) % 2));
        }
        1 => {
            // a generator the presentation does not have, in a relator that is not the first
            let bad = to_freewords(&[vec![1, 1, 1], vec![2, 5, 2]]);
            let _ = abelian_invariants(2, bad.iter());
        }
        _ => {
            let _ = abelian_invariants(0, ws.iter());
        }
    }
}

/// Judges one presentation (and metamorphic variants of it when `variants` is set).
pub fn judge(ctx: &mut Ctx, n: usize, rels: &[Word], variants: bool, use_minors: bool, rng: &mut Rng, origin: &str) {
    let input = || json!({"nr_gens": n, "relators": rels, "origin": origin});
    let want = expected(n, rels);
    if use_minors {
        // cross-check of the two oracles (harness self-validation; a mismatch is a harness fault)
        let rows: Vec<Vec<BigInt>> = rels.iter().map(|w| snf::exponent_vector(n, w)).collect();
        let w2 = snf::abelian_invariants_minors(&rows, n);
        if w2 != want {
            ctx.inconclusive.push(format!("oracle disagreement (elimination vs minors) on {}", input()));
            return;
        }
    }
    let fw = to_freewords(rels);
    let shape = shape_of(n, rels);
    ctx.count(&format!("input_shape.{}", shapes::input_shape_name(shape)));
    let r = observe(|| abelian_invariants(n, shapes::shaped_refs(&fw, shape)));
    ctx.eval();
    let got = match r {
        Ok(g) => g,
        Err(p) => {
            report_panic(ctx, &p, input());
            return;
        }
    };
    if to_big(&got) != want {
        ctx.violation(
            "invariants-differ-from-smith-normal-form",
            "abelian_invariants",
            input(),
            json!({"got": got, "expected": want.iter().map(|x| x.to_string()).collect::<Vec<_>>()}),
            "ascending invariant factors != 1 of Z^n / <exponent vectors>, one 0 per free generator",
        );
        return;
    }
    if !got.windows(2).all(|p| p[0] <= p[1]) {
        ctx.violation("not-ascending", "abelian_invariants", input(), json!(got), "ascending list");
    }
    // relator_as_vector
    for (k, w) in rels.iter().enumerate().take(3) {
        let fwk = &fw[k];
        let r = observe(|| relator_as_vector::<i64>(n, fwk));
        if let Some(v) = ctx.no_panic("relator_as_vector", input, r) {
            let want: Vec<i64> = snf::exponent_vector(n, w).iter().map(|x| x.to_i64().unwrap()).collect();
            if v != want {
                ctx.violation("exponent-sums", "relator_as_vector", json!({"nr_gens": n, "word": w}), json!(v), "exponent sum per generator");
            }
        }
    }
    if !variants || rels.is_empty() {
        return;
    }
    // metamorphic variants, all judged against the same oracle value
    let mut vars: Vec<(&str, usize, Vec<Word>)> = vec![];
    let mut p = rels.to_vec();
    rng.shuffle(&mut p);
    vars.push(("reordered", n, p));
    vars.push(("inverted", n, rels.iter().map(|w| inverse(w)).collect()));
    vars.push(("rotated", n, rels.iter().map(|w| rotate(w, if w.is_empty() { 0 } else { rng.below(w.len()) })).collect()));
    vars.push((
        "conjugated",
        n,
        rels.iter()
            .map(|w| {
                let g = rng.range(1, n as i64);
                concat(&concat(&[g], w), &[-g])
            })
            .collect(),
    ));
    // rename generators by a permutation, invert one generator
    let perm = rng.perm1(n);
    let flip = rng.below(n) as i64 + 1;
    vars.push((
        "generators-renamed-and-one-inverted",
        n,
        rels.iter()
            .map(|w| {
                w.iter()
                    .map(|&x| {
                        let g = perm[x.unsigned_abs() as usize] as i64;
                        let s = if x > 0 { 1 } else { -1 };
                        if g == flip {
                            -s * g
                        } else {
                            s * g
                        }
                    })
                    .collect()
            })
            .collect(),
    ));
    // append products of existing relators
    let mut ext = rels.to_vec();
    let a = rng.below(rels.len());
    let b = rng.below(rels.len());
    ext.push(concat(&rels[a], &rels[b]));
    ext.push(concat(&inverse(&rels[b]), &concat(&rels[a], &rels[a])));
    vars.push(("products-appended", n, ext));
    for (name, n2, rs) in vars {
        let fw = to_freewords(&rs);
        let shape = shape_of(n2, &rs);
        let r = observe(|| abelian_invariants(n2, shapes::shaped_refs(&fw, shape)));
        ctx.eval();
        ctx.count(&format!("variant.{}", name));
        let vin = || json!({"nr_gens": n2, "relators": rs, "variant": name, "of": rels});
        let g = match r {
            Ok(g) => Some(g),
            Err(p) => {
                report_panic(ctx, &p, vin());
                None
            }
        };
        if let Some(g) = g {
            if to_big(&g) != want {
                ctx.violation(
                    &format!("not-invariant-under-{}", name),
                    "abelian_invariants",
                    vin(),
                    json!({"got": g, "expected": want.iter().map(|x| x.to_string()).collect::<Vec<_>>()}),
                    "result unchanged by this rewriting of the presentation",
                );
            }
        }
    }
}

fn classify(ctx: &mut Ctx, n: usize, rows: &[Vec<i64>], key: u64) {
    let big: Vec<Vec<BigInt>> = rows.iter().map(|r| r.iter().map(|&x| BigInt::from(x)).collect()).collect();
    let f = snf::invariant_factors_elim(&big, n);
    let rank = f.len();
    let mut diag: Vec<BigInt> = (0..rows.len().min(n)).map(|i| BigInt::from(rows[i][i].abs())).filter(|x| !x.is_zero()).collect();
    diag.sort();
    let mut fs = f.clone();
    fs.sort();
    if rank < rows.len().min(n) {
        ctx.count("rank_deficient");
    }
    if f.iter().any(|x| !x.is_one()) {
        ctx.count("with_nonunit_factor");
    }
    if rank >= 2 && diag != fs {
        ctx.nontrivial(key);
    }
}

/// Fixed dense matrices on which the pinned library overflows (known finding).
fn overflow_witnesses() -> Vec<Vec<Vec<i64>>> {
    vec![
        vec![vec![4, 9, 2, 3, 9, -7], vec![6, 4, 4, -3, 3, -8], vec![4, 1, -2, 2, -5, -9], vec![6, -1, 8, -9, 5, -1], vec![-5, 2, 1, -9, 7, -9], vec![-8, -5, -8, -3, -3, -8]],
        vec![vec![3, 1, -3, 0, -1, -3, 0, 1, 1, 1], vec![0, 0, 2, 0, -3, -1, 3, -3, -1, 2], vec![-3, -2, 0, 3, -2, -3, 0, 3, 2, -1], vec![1, 3, 3, -1, -3, 3, 1, 3, 0, -3], vec![2, -1, 0, 2, -3, -1, 1, 0, -2, 1], vec![3, -2, 3, 3, -2, -1, -1, 0, 2, 0], vec![-1, -2, -3, -1, -2, 0, -1, 2, 1, 0], vec![-3, 3, -2, 2, -3, -1, 1, 3, -1, 1], vec![-1, -2, 1, -1, 0, 1, 1, 3, 0, 0], vec![2, 3, 2, -3, -3, 1, 0, 0, -1, 2]],
        vec![vec![-1, 1, 1, 1, 0, -1, 0, 1, -1, 1, 1, -1, 1, -1, -1, 0], vec![1, -1, -1, 1, 0, 0, 0, -1, 1, 1, -1, 1, 0, 0, 1, 0], vec![-1, 0, -1, -1, 0, -1, -1, 0, 0, -1, -1, 0, -1, -1, 0, 1], vec![-1, -1, 1, -1, -1, -1, 1, 0, 0, 0, 0, 0, 1, 1, 1, -1], vec![1, 0, 1, -1, -1, -1, 0, 0, 1, 0, 0, -1, 1, -1, -1, 0], vec![-1, 0, 1, 0, 0, 0, -1, 1, 0, 1, 0, -1, 0, -1, 0, 0], vec![0, 0, -1, 0, 1, 0, 0, 0, 0, 1, -1, 0, 0, -1, 0, -1], vec![0, 1, -1, -1, -1, -1, 1, 0, 0, 0, 1, -1, 1, -1, 1, 1], vec![1, 0, 1, 0, 1, 0, 0, 1, 1, 0, 1, -1, -1, -1, 1, -1], vec![0, 1, 0, 1, 0, -1, -1, 0, 1, -1, 1, -1, 0, 0, 1, 0], vec![1, -1, 0, -1, 0, 0, -1, -1, -1, -1, -1, -1, -1, -1, 0, 0], vec![-1, -1, 0, 1, 1, -1, -1, 0, 0, 0, 1, -1, -1, 0, 0, 1], vec![1, 0, 0, 1, -1, 0, 0, 0, -1, 1, 1, 0, 0, -1, 1, 1], vec![0, 1, -1, 1, -1, 1, -1, 1, 1, 0, 1, 0, -1, 0, 0, 1], vec![0, -1, -1, -1, -1, 1, 1, 1, -1, -1, 1, 0, 0, 1, 0, -1], vec![1, -1, -1, 1, 1, 1, -1, 1, 0, 0, 1, 0, 1, 1, -1, 0]],
    ]
}

pub fn run(cfg: &Cfg) -> Report {
    let mut report = Report::new(cfg);
    crate::monitor::set_poison(poison);
    let seed = cfg.seed;

    // (A) exhaustive: all 2x2 and 2x3 matrices with entries in [-3,3]
    for (nr, nc) in [(2usize, 2usize), (2, 3), (3, 2)] {
        let cells = nr * nc;
        let total = 7usize.pow(cells as u32);
        let ctx = par_range(cfg, total, |ctx, k| {
            let mut x = k;
            let mut rows = vec![vec![0i64; nc]; nr];
            for c in 0..cells {
                rows[c / nc][c % nc] = (x % 7) as i64 - 3;
                x /= 7;
            }
            let mut rng = Rng::stream(seed, k as u64);
            let rels: Vec<Word> = rows.iter().map(|r| word_for_row(r, k, &mut rng)).collect();
            classify(ctx, nc, &rows, digest(&("ex", nr, nc, k)));
            judge(ctx, nc, &rels, k % 16 == 0, true, &mut rng, "exhaustive small matrix");
            ctx.count("exhaustive_matrices");
        });
        report.absorb(ctx);
    }

    // (B) random and structured matrices up to 5x5 (6x6 thorough), entries in [-9,9]
    let nrand = cfg.tier.pick(4_000_000, 60_000_000);
    let ctx = par_range(cfg, nrand, |ctx, k| {
        let mut rng = Rng::stream(seed, 0x14_0000_0000 + k as u64);
        let maxdim = 5;
        let nr = 1 + rng.below(maxdim);
        let nc = 1 + rng.below(maxdim);
        let mut rows = vec![vec![0i64; nc]; nr];
        match rng.below(6) {
            0 => {
                // diagonal non-divisibility chains such as diag(4,6,10)
                let pool = [2, 3, 4, 5, 6, 9, 10, 12, 15];
                for i in 0..nr.min(nc) {
                    rows[i][i] = *rng.pick(&pool);
                }
            }
            1 => {
                // low rank: product of random factors
                let r = 1 + rng.below(nr.min(nc));
                let a: Vec<Vec<i64>> = (0..nr).map(|_| (0..r).map(|_| rng.range(-2, 2)).collect()).collect();
                let b: Vec<Vec<i64>> = (0..r).map(|_| (0..nc).map(|_| rng.range(-2, 2)).collect()).collect();
                for i in 0..nr {
                    for j in 0..nc {
                        rows[i][j] = (0..r).map(|t| a[i][t] * b[t][j]).sum();
                    }
                }
            }
            2 => {
                // repeated / zero rows and columns
                for i in 0..nr {
                    for j in 0..nc {
                        rows[i][j] = rng.range(-9, 9);
                    }
                }
                if nr >= 2 {
                    let (a, b) = (rng.below(nr), rng.below(nr));
                    rows[a] = rows[b].clone();
                }
                if rng.chance(1, 2) {
                    let z = rng.below(nc);
                    for i in 0..nr {
                        rows[i][z] = 0;
                    }
                }
                if rng.chance(1, 2) {
                    let z = rng.below(nr);
                    rows[z] = vec![0; nc];
                }
            }
            3 => {
                // sparse small entries
                for i in 0..nr {
                    for j in 0..nc {
                        rows[i][j] = if rng.chance(1, 3) { rng.range(-3, 3) } else { 0 };
                    }
                }
            }
            _ => {
                for i in 0..nr {
                    for j in 0..nc {
                        rows[i][j] = rng.range(-9, 9);
                    }
                }
            }
        }
        let style = rng.below(3);
        let rels: Vec<Word> = rows.iter().map(|r| word_for_row(r, style, &mut rng)).collect();
        classify(ctx, nc, &rows, digest(&("rnd", seed, k)));
        judge(ctx, nc, &rels, k % 4 == 0, nr <= 4 && nc <= 4, &mut rng, "random matrix");
        ctx.count("random_matrices");
        if k < 3 {
            ctx.sample(|| json!({"nr_gens": nc, "exponent_matrix": rows, "relators": rels}));
        }
    });
    report.absorb(ctx);

    // (B2) non-chain diagonal presentations with 4-6 cyclic factors (the gcd/lcm fix-up loop needs >= 4
    // entries that do not divide each other to go wrong), optionally hidden by unimodular row operations
    let ndiag = cfg.tier.pick(60_000, 2_000_000);
    let ctx = par_range(cfg, ndiag, |ctx, k| {
        let mut rng = Rng::stream(seed, 0x14_4000_0000 + k as u64);
        let n = 4 + rng.below(3);
        let mut rows = vec![vec![0i64; n]; n];
        for i in 0..n {
            rows[i][i] = rng.range(0, 12);
        }
        if rng.chance(1, 2) {
            for _ in 0..3 {
                let (a, b) = (rng.below(n), rng.below(n));
                if a != b {
                    let f = rng.range(-1, 1);
                    for c in 0..n {
                        rows[a][c] += f * rows[b][c];
                    }
                }
            }
        }
        let style = rng.below(2);
        let rels: Vec<Word> = rows.iter().map(|r| word_for_row(r, style, &mut rng)).collect();
        classify(ctx, n, &rows, digest(&("diag", seed, k)));
        judge(ctx, n, &rels, k % 8 == 0, false, &mut rng, "non-chain diagonal");
        ctx.count("non_chain_diagonals");
    });
    report.absorb(ctx);

    // (B3) large cyclic factors through doubling chains: generators x_1..x_k with x_i^2 = x_{i+1} and
    // x_k^c = 1 present Z_{c 2^(k-1)} with relators of length <= max(3, c); two or three independent
    // chains give products whose invariant factors need 64-bit lcm arithmetic
    let nchain = cfg.tier.pick(3 * 441 + 400, 3 * 441 + 20000);
    let ctx = par_range(cfg, nchain, |ctx, k| {
        let mut rng = Rng::stream(seed, 0x14_8000_0000 + k as u64);
        let chains = 2 + rng.below(2);
        let mut rels: Vec<Word> = vec![];
        let mut next = 1i64;
        const CS: [i64; 7] = [1, 3, 5, 6, 7, 9, 15];
        for ch in 0..chains {
            // the first 3 x 441 cases enumerate the two-chain products at the top of the range (both factors between
            // 2^30 and 15 * 2^32: the product of two invariant factors exceeds 2^63 while their lcm does not);
            // the remaining cases are random
            let (len, c) = if k < 3 * 441 && ch < 2 {
                let e = k / 3; // each product in the three relator orders
                let (li, ci) = if ch == 0 { ((e / 147) % 3, (e / 21) % 7) } else { ((e / 7) % 3, e % 7) };
                (31 + li, CS[ci])
            } else {
                (20 + rng.below(14), *rng.pick(&CS)) // 2^19 .. 2^32
            };
            let first = next;
            for i in 0..(len - 1) {
                rels.push(vec![first + i as i64, first + i as i64, -(first + i as i64 + 1)]);
            }
            let last = first + len as i64 - 1;
            rels.push(vec![last; c as usize]);
            next = last + 1;
        }
        let n = (next - 1) as usize;
        // relator order decides which diagonal the elimination arrives at (and so whether the gcd/lcm fix-up loop
        // has anything to do): chain by chain, reversed, and shuffled
        match k % 3 {
            0 => {}
            1 => rels.reverse(),
            _ => rng.shuffle(&mut rels),
        }
        judge(ctx, n, &rels, false, false, &mut rng, "doubling chains");
        ctx.count("doubling_chain_presentations");
        ctx.nontrivial(digest(&("chain", seed, k)));
    });
    report.absorb(ctx);

    // (B4) KNOWN FINDING witnesses: dense matrices on which the library's isize elimination overflows
    // (see DESIGN.md 12.3 / known_findings.txt). Fixed inputs, so that the finding is identified by input.
    {
        let mut ctx = Ctx::new();
        let mut rng = Rng::stream(seed, 0x14_f);
        for rows in overflow_witnesses() {
            let n = rows.len();
            let rels: Vec<Word> = rows.iter().map(|r| word_for_row(r, 0, &mut rng)).collect();
            judge(&mut ctx, n, &rels, false, false, &mut rng, "dense matrix beyond the overflow-free region (known finding witness)");
            ctx.count("overflow_witnesses_run");
        }
        report.absorb(ctx);
    }

    // (C) no relators / no generators / empty words
    let mut ctx = Ctx::new();
    let mut rng = Rng::stream(seed, 77);
    for n in 0..4 {
        judge(&mut ctx, n, &[], false, false, &mut rng, "no relators");
        if n > 0 {
            judge(&mut ctx, n, &[vec![]], false, false, &mut rng, "one empty relator");
            judge(&mut ctx, n, &[vec![1, -1]], false, false, &mut rng, "one trivially reducing relator");
        }
    }
    report.absorb(ctx);

    report.rule = "exponent-sum matrices rendered as words in three styles (blocks, reversed blocks, shuffled with inserted commutators): all 2x2, 2x3, 3x2 matrices with entries in [-3,3]; random/structured matrices up to 5x5 with entries in [-9,9] (diagonal non-divisibility chains, forced low rank, repeated and zero rows/columns, sparse); degenerate presentations. Non-trivial = rank >= 2 and invariant factors different from the sorted diagonal; distinct = distinct matrix digests. Every 4th (16th for the exhaustive part) case also goes through six metamorphic rewritings".into();
    report.explanation = "result compared with BigInt Smith normal form by elimination, itself cross-checked against gcds of minors for matrices up to 4x4".into();
    report.note("exhaustive_subuniverses", json!(["all 2x2, 2x3 and 3x2 integer matrices with entries in [-3,3]"]));
    report.assume("KNOWN FINDING: the isize elimination of the library overflows (panic in checked builds, silent wrap in release builds) on dense matrices from about 6x6 with entries <= 9, 10x10 with entries <= 3, 16x16 with entries in {-1,0,1}; three fixed witnesses are run and listed in known_findings.txt; the random dense workload stays at <= 5x5 with entries <= 9 where no overflow was ever observed (millions of cases); sparse presentation matrices from symbols are judged in C09/C13/C15");
    report.require_counter("random_matrices", (nrand / 2) as u64);
    report.require_counter("rank_deficient", 1000);
    report.require_counter("with_nonunit_factor", 1000);
    report.require_counter("variant.products-appended", 1000);
    report.require_counter("non_chain_diagonals", (ndiag / 2) as u64);
    report.require_counter("doubling_chain_presentations", (nchain / 2) as u64);
    report
}

pub fn replay(ctx: &mut Ctx, input: &Value) -> bool {
    let n = match input.get("nr_gens").and_then(|x| x.as_u64()) {
        Some(n) => n as usize,
        None => return false,
    };
    let rels: Vec<Word> = match input.get("relators").and_then(|x| x.as_array()) {
        Some(a) => a.iter().map(|w| w.as_array().map(|l| l.iter().filter_map(|x| x.as_i64()).collect()).unwrap_or_default()).collect(),
        None => return false,
    };
    let mut rng = Rng::new(1);
    if let Some(of) = input.get("of").and_then(|x| x.as_array()) {
        // a metamorphic variant: expected value comes from the original presentation
        let orig: Vec<Word> = of.iter().map(|w| w.as_array().map(|l| l.iter().filter_map(|x| x.as_i64()).collect()).unwrap_or_default()).collect();
        let want = expected(n, &orig);
        let fw = to_freewords(&rels);
        let shape = shape_of(n, &rels);
        if let Ok(g) = observe(|| abelian_invariants(n, shapes::shaped_refs(&fw, shape))) {
            if to_big(&g) != want {
                let name = input.get("variant").and_then(|x| x.as_str()).unwrap_or("variant");
                ctx.violation(&format!("not-invariant-under-{}", name), "abelian_invariants", input.clone(), json!(g), "unchanged");
            }
        }
        return true;
    }
    judge(ctx, n, &rels, false, false, &mut rng, input.get("origin").and_then(|x| x.as_str()).unwrap_or(""));
    true
}
