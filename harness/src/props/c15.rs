//! C15 — toroidal and pseudo-toroidal covers are branch-free tori.

use super::three_d;
use crate::bridge::*;
use crate::gen;
use crate::monitor::{digest, observe, par_items, Cfg, Ctx, Report};
use crate::oracle::dsym::MSym;
use crate::oracle::orbifold;
use crate::oracle::snf;
use crate::rng::Rng;
use num_traits::Zero;
use rust_dsymbols::delaney2d::toroidal_cover;
use rust_dsymbols::delaney3d::pseudo_toroidal_cover;
use serde_json::{json, Value};

pub fn judge_2d(ctx: &mut Ctx, m: &MSym, variant: &str) {
    let input = || json!({"symbol": m.to_text(), "variant": variant, "dimension": 2});
    ctx.eval();
    // calls a user may well make on the same thread just before: the cover lists of the symbol and of its
    // oriented cover up to a small sheet bound. They must not change what toroidal_cover finds afterwards.
    let pre = digest(m) % 4;
    if pre > 0 {
        let ds = to_partial_dsym(m);
        let _ = observe(|| {
            let a = rust_dsymbols::covers::covers(&ds, pre as usize).len();
            let b = rust_dsymbols::covers::covers(&rust_dsymbols::derived::oriented_cover(&ds), pre as usize).len();
            a + b
        });
        ctx.count("toroidal_cover_after_cover_lists_with_a_small_sheet_bound");
    }
    let r = observe(|| from_dsym(&toroidal_cover(&to_partial_dsym(m))));
    let c = match ctx.no_panic("delaney2d::toroidal_cover", input, r) {
        Some(c) => c,
        None => return,
    };
    let mut problem: Option<(&str, Value)> = None;
    if !c.is_valid_symbol() || !c.is_connected() {
        problem = Some(("toroidal-cover-not-a-valid-connected-symbol", json!({"size": c.n})));
    } else if c.covering_map_onto(m).is_none() {
        problem = Some(("toroidal-cover-does-not-cover-the-input", json!({"cover": c.to_text()})));
    } else if !c.is_oriented() {
        problem = Some(("toroidal-cover-not-oriented", json!({"cover": c.to_text()})));
    } else if !(0..=2).all(|i| ((i + 1)..=2).all(|j| (1..=c.n).all(|d| c.vv(i, j, d) == 1))) {
        problem = Some(("toroidal-cover-still-branched", json!({"cover": c.to_text()})));
    } else {
        let o = orbifold::orbifold(&c);
        if !(o.cones.is_empty() && o.boundaries.is_empty() && o.handles == 1 && o.crosscaps == 0) {
            problem = Some(("toroidal-cover-is-not-a-torus", json!({"model_orbifold": format!("{:?}", o)})));
        } else {
            // the library's own presentation of it: no cones, abelianisation Z^2
            match observe(|| {
                let fg = rust_dsymbols::fundamental_group::fundamental_group(&to_partial_dsym(&c));
                (fg.cones.len(), fg.nr_generators(), from_freewords(fg.relators.iter()))
            }) {
                Ok((cones, g, rels)) => {
                    let inv = snf::abelian_invariants_of_presentation(g, &rels);
                    if cones != 0 || !(inv.len() == 2 && inv.iter().all(|x| x.is_zero())) {
                        problem = Some(("fundamental-group-of-toroidal-cover-is-not-torus-like", json!({"cones": cones, "abelian_invariants": inv.iter().map(|x| x.to_string()).collect::<Vec<_>>()})));
                    }
                }
                Err(p) => problem = Some(("panic-in-fundamental-group-of-cover", p.to_json())),
            }
        }
    }
    if let Some((c, o)) = problem {
        ctx.violation(c, "delaney2d::toroidal_cover", input(), o, "an oriented covering with all branching numbers 1 whose fundamental group has no cones and abelianises to Z^2");
        return;
    }
    ctx.count("toroidal_covers_2d");
    if !m.is_oriented() || (0..2).any(|i| (1..=m.n).any(|d| m.v[i][d] > 1)) {
        ctx.nontrivial(digest(&("2d", m)));
    }
}

#[derive(Clone, Debug, PartialEq, Eq)]
pub enum Found {
    None,
    Some { sheets_over_oriented: usize },
    Failed,
}

/// Judges one 3D symbol (single variant); returns what was found.
pub fn judge_3d_one(ctx: &mut Ctx, m: &MSym, variant: &str, must_find: bool) -> Found {
    let input = || json!({"symbol": m.to_text(), "variant": variant, "dimension": 3});
    ctx.eval();
    let r = observe(|| pseudo_toroidal_cover(&to_partial_dsym(m)).map(|c| from_dsym(&c)));
    let res = match ctx.no_panic("delaney3d::pseudo_toroidal_cover", input, r) {
        Some(x) => x,
        None => return Found::Failed,
    };
    match res {
        None => {
            ctx.count("pseudo_toroidal.none");
            if must_find {
                ctx.violation("no-cover-found-for-a-known-euclidean-symbol", "delaney3d::pseudo_toroidal_cover", input(), json!("None"), "one is found for every symbol of the known-euclidean corpus");
                return Found::Failed;
            }
            Found::None
        }
        Some(c) => {
            ctx.count("pseudo_toroidal.some");
            let ori_size = if m.is_oriented() { m.n } else { 2 * m.n };
            let mut problem: Option<(&str, Value)> = None;
            if !c.is_valid_symbol() || !c.is_connected() {
                problem = Some(("cover-not-a-valid-connected-symbol", json!({"size": c.n})));
            } else if !c.is_oriented() {
                problem = Some(("cover-not-oriented", json!({"size": c.n})));
            } else if !three_d::unbranched(&c) {
                problem = Some(("cover-still-branched", json!({"size": c.n})));
            } else if c.covering_map_onto(m).is_none() {
                problem = Some(("cover-does-not-cover-the-input", json!({"size": c.n})));
            } else if c.n % ori_size != 0 || ![1usize, 2, 3, 4, 6, 8, 12, 24].contains(&(c.n / ori_size)) {
                problem = Some(("sheet-number-is-not-a-point-group-order", json!({"cover_size": c.n, "oriented_cover_size": ori_size})));
            } else {
                let inv = three_d::h1(&c);
                if !three_d::is_z3(&inv) {
                    problem = Some(("first-homology-of-cover-is-not-Z3", json!({"abelian_invariants": inv.iter().map(|x| x.to_string()).collect::<Vec<_>>(), "size": c.n})));
                }
            }
            if let Some((cl, o)) = problem {
                ctx.violation(cl, "delaney3d::pseudo_toroidal_cover", input(), o, "an oriented, branch-free covering whose fundamental group abelianises to Z^3, with a point-group order as sheet number over the oriented cover");
                return Found::Failed;
            }
            ctx.count(&format!("sheets_over_oriented_cover.{}", c.n / ori_size));
            Found::Some { sheets_over_oriented: c.n / ori_size }
        }
    }
}

pub fn judge_3d(ctx: &mut Ctx, cfg: &Cfg, m: &MSym, rng: &mut Rng, must_find: bool, nvariants: usize) {
    let vars = three_d::variants(cfg, m, rng, nvariants);
    let mut first: Option<Found> = None;
    for (name, mv) in &vars {
        let f = judge_3d_one(ctx, mv, name, must_find);
        if f == Found::Failed {
            return;
        }
        match &first {
            None => first = Some(f),
            Some(f0) => {
                if *f0 != f {
                    ctx.violation(
                        "result-depends-on-numbering-or-dualisation",
                        "delaney3d::pseudo_toroidal_cover",
                        json!({"symbol": m.to_text(), "variant": name, "variant_symbol": mv.to_text()}),
                        json!({"original": format!("{:?}", f0), "variant": format!("{:?}", f)}),
                        "whether a cover is found, and its sheet number, do not depend on the numbering of the input",
                    );
                    return;
                }
            }
        }
    }
    if let Some(Found::Some { sheets_over_oriented }) = first {
        if sheets_over_oriented > 1 {
            ctx.nontrivial(digest(&("3d", m)));
        }
    }
}

pub fn run(cfg: &Cfg) -> Report {
    let mut report = Report::new(cfg);
    // out-of-domain calls between judged cases: toroidal_cover of a spherical symbol, pseudo_toroidal_cover of a 2D one
    crate::monitor::set_poison(|k| {
        if let Ok(ds) = "<1.1:1:1,1,1:3,3>".parse::<rust_dsymbols::dsyms::PartialDSym>() {
            if k % 2 == 0 {
                let _ = toroidal_cover(&ds);
            } else {
                let _ = pseudo_toroidal_cover(&ds);
            }
        }
    });
    let seed = cfg.seed;
    // 2D: all euclidean symbols (v up to 6) on connected sets up to the bound, with renumberings and duals
    let mut eu: Vec<MSym> = vec![];
    for s in gen::connected_sets_upto(2, cfg.tier.pick(4, 6)) {
        gen::for_all_branchings(&s, &|_, _| vec![1, 2, 3, 4, 6], &mut |x| {
            if orbifold::curvature(x).is_zero() {
                eu.push(x.clone());
            }
        });
    }
    let ctx = par_items(cfg, &eu, |ctx, k, m| {
        let mut rng = Rng::stream(seed, 0x15_0000 + k as u64);
        judge_2d(ctx, m, "identity");
        judge_2d(ctx, &m.renumbered(&rng.perm1(m.n)), "renumbered");
        if k % 2 == 0 {
            judge_2d(ctx, &m.dual(), "dual");
        }
        if k % 200 == 0 {
            ctx.sample(|| json!({"euclidean_2d_symbol": m.to_text()}));
        }
    });
    report.absorb(ctx);

    // 3D universe
    let mut uni = three_d::universe(cfg.tier.pick(3, 4));
    uni.extend(three_d::sampled_larger(seed, cfg.tier.pick(&[5], &[5, 6]), cfg.tier.pick(1, 3), cfg.tier.pick(300, 8000)));
    let ctx = par_items(cfg, &uni, |ctx, k, m| {
        let mut rng = Rng::stream(seed, 0x15_8000 + k as u64);
        judge_3d(ctx, cfg, m, &mut rng, false, cfg.tier.pick(3, 4));
        if k % 700 == 0 {
            ctx.sample(|| json!({"symbol_3d": m.to_text()}));
        }
    });
    report.absorb(ctx);

    // corpus: must find
    let corpus = gen::corpus();
    let ctx = par_items(cfg, &corpus, |ctx, k, m| {
        let mut rng = Rng::stream(seed, 0x15_c000 + k as u64);
        judge_3d(ctx, cfg, m, &mut rng, true, cfg.tier.pick(4, 8));
        ctx.count("corpus_symbols");
        // small corpus symbols: EVERY numbering of the symbol and of its dual must give the same answer
        if m.n <= cfg.tier.pick(4, 5) {
            let f0 = judge_3d_one(ctx, m, "identity", true);
            if f0 != Found::Failed {
                'perms: for p in gen::all_perms1(m.n) {
                    for (name, v) in [("renumbering", m.renumbered(&p)), ("renumbered dual", m.dual().renumbered(&p))] {
                        let f = judge_3d_one(ctx, &v, name, true);
                        ctx.count("corpus_all_numberings_judged");
                        if f != Found::Failed && f != f0 {
                            ctx.violation(
                                "result-depends-on-numbering-or-dualisation",
                                "delaney3d::pseudo_toroidal_cover",
                                json!({"symbol": m.to_text(), "variant": format!("{} {:?}", name, &p[1..]), "variant_symbol": v.to_text()}),
                                json!({"original": format!("{:?}", f0), "variant": format!("{:?}", f)}),
                                "whether a cover is found, and its sheet number, do not depend on the numbering of the input",
                            );
                            break 'perms;
                        }
                    }
                }
            }
        }
        // finite covers of a euclidean symbol are euclidean: the closure of the corpus under covers with
        // few sheets must be found as well (covers built by the library, validated by the model)
        // sheet bound: chambers of the cover <= 18 (thorough 32), 2..=6 (thorough 8) sheets
        let max_sheets = (cfg.tier.pick(18, 32) / m.n.max(1)).clamp(2, cfg.tier.pick(6, 8));
        if let Ok(cs) = observe(|| rust_dsymbols::covers::covers(&to_partial_dsym(m), max_sheets).iter().map(|c| from_dsym(c)).collect::<Vec<_>>()) {
            for c in cs {
                if c.n > m.n && c.is_valid_symbol() && c.is_connected() && c.covering_map_onto(m).is_some() && gen::locally_spherical_3d(&c) {
                    let f = judge_3d_one(ctx, &c, &format!("{}-sheeted cover of corpus symbol {}", c.n / m.n, gen::EUCLIDEAN_CORPUS[k]), true);
                    if f != Found::Failed {
                        ctx.count("corpus_cover_symbols_found");
                        // whether a cover is found and its sheet number must not depend on numbering / dualisation
                        let mut vars = vec![("dual".to_string(), c.dual())];
                        for r in 0..cfg.tier.pick(1, 3) {
                            vars.push((format!("renumbering #{}", r), c.renumbered(&rng.perm1(c.n))));
                        }
                        for (name, cv) in vars {
                            let f2 = judge_3d_one(ctx, &cv, &name, true);
                            if f2 != Found::Failed && f2 != f {
                                ctx.violation(
                                    "result-depends-on-numbering-or-dualisation",
                                    "delaney3d::pseudo_toroidal_cover",
                                    json!({"symbol": c.to_text(), "variant": name, "variant_symbol": cv.to_text()}),
                                    json!({"original": format!("{:?}", f), "variant": format!("{:?}", f2)}),
                                    "whether a cover is found, and its sheet number, do not depend on the numbering of the input",
                                );
                                break;
                            }
                        }
                    }
                }
            }
        }
    });
    report.absorb(ctx);

    // cone-free covers of corpus symbols: subgroups generated by 2-3 random words (screw motions, glide reflections and
    // translations) that happen to have finite index and no torsion - tilings of closed flat manifolds, most of them
    // not 3-tori. Built by the harness alone (its textbook presentation, its Todd-Coxeter, its own cover
    // construction), 24-144 chambers; a finite cover of a euclidean symbol is euclidean, so a pseudo-toroidal cover
    // must be found and must pass the certificate.
    {
        let corpus = gen::corpus();
        let attempts = cfg.tier.pick(4_000, 60_000);
        let ctx = crate::monitor::par_range(cfg, corpus.len() * attempts, |ctx, k| {
            let m = &corpus[k % corpus.len()];
            if m.n > 6 {
                return;
            }
            let mut rng = Rng::stream(seed, 0x15_c000_0000 + k as u64);
            let tb = crate::oracle::pi1::textbook_pi1(m);
            let ng = tb.pres.ngens as i64;
            if ng == 0 {
                return;
            }
            let nw = 2 + rng.below(2);
            let words: Vec<Vec<i64>> = (0..nw)
                .map(|_| {
                    let len = 2 + rng.below(8);
                    crate::oracle::groups::reduce(&(0..len).map(|_| { let g = rng.range(1, ng); if rng.chance(1, 2) { g } else { -g } }).collect::<Vec<i64>>())
                })
                .filter(|w| !w.is_empty())
                .collect();
            if words.len() < 2 {
                return;
            }
            let max_rows = 144 / m.n;
            let t = match crate::oracle::groups::todd_coxeter(&tb.pres, &words, 4 * max_rows) {
                Some(t) if t.rows() >= 4 && t.rows() <= max_rows => t,
                _ => return,
            };
            ctx.count("finite_index_subgroups_of_corpus_groups_from_random_words");
            let c = super::c05::oracle_cover(m, &tb, &t);
            if !c.is_valid_symbol() || !c.is_connected() || !three_d::unbranched(&c) {
                return;
            }
            ctx.count("cone_free_covers_of_corpus_symbols");
            let ori = if c.is_oriented() { c.clone() } else { c.double_cover_by_cocycle(&|_, _| true) };
            if ori.is_connected() && three_d::h1(&ori).iter().filter(|x| x.is_zero()).count() != 3 {
                ctx.count("cone_free_covers_whose_orientation_cover_is_not_a_torus");
            }
            let f = judge_3d_one(ctx, &c, &format!("cone-free {}-sheeted cover of corpus symbol {} (subgroup generated by {:?})", t.rows(), gen::EUCLIDEAN_CORPUS[k % corpus.len()], words), true);
            if f != Found::Failed {
                ctx.nontrivial(digest(&("cone-free", &c)));
            }
        });
        report.absorb(ctx);
    }

    report.rule = "2D: every curvature-zero symbol (v in {1,2,3,4,6}) on connected sets <= 4 (thorough 6) chambers, also renumbered and dualised; 3D: every complete symbol with v in {1,2,3,4,6} and spherical tiles and vertex figures on connected sets <= 3 (thorough 4) chambers plus sampled 5-chamber ones, each with 2-3 renumberings and its dual; the known-euclidean corpus (19 literature symbols quoted by the repository) with more renumberings. Non-trivial: 2D symbol with branching or non-oriented; 3D symbol whose cover has > 1 sheet over the oriented cover. Distinct = symbol digests".into();
    report.explanation = "2D: covering map found by the model, oriented, unbranched, Euler characteristic 0 with no boundary (torus, independent of any group computation), library presentation without cones and with Smith normal form [0,0]; 3D: Some(C) => C oriented, unbranched, covers the input (model search), H1(C) = Z^3 through the harness's textbook presentation and BigInt Smith normal form, sheet number over the oriented cover in {1,2,3,4,6,8,12,24}; found/sheet number identical over all explored renumberings and the dual; Some for every corpus symbol".into();
    report.assume("known-euclidean corpus = the symbols the repository itself quotes from the literature (no network), closed under renumbering, dualisation and finite covers with <= 18 (thorough 32) chambers and 2..6 (8) sheets (a finite cover of a euclidean symbol is euclidean); 3D domain as asserted by the function (crystallographic restriction)");
    report.require_counter("toroidal_covers_2d", 100);
    report.require_counter("pseudo_toroidal.some", 50);
    report.require_counter("pseudo_toroidal.none", 50);
    report.require_counter("corpus_symbols", 19);
    report.require_counter("corpus_cover_symbols_found", 50);
    report.require_counter("cone_free_covers_whose_orientation_cover_is_not_a_torus", 20);
    report
}

pub fn replay(ctx: &mut Ctx, input: &Value) -> bool {
    let m = match input.get("symbol").and_then(|x| x.as_str()).and_then(msym_from_text) {
        Some(m) => m,
        None => return false,
    };
    if input.get("dimension").and_then(|x| x.as_u64()) == Some(2) || m.dim == 2 {
        judge_2d(ctx, &m, input.get("variant").and_then(|x| x.as_str()).unwrap_or("identity"));
        return true;
    }
    if let Some(v) = input.get("variant_symbol").and_then(|x| x.as_str()).and_then(msym_from_text) {
        let a = judge_3d_one(ctx, &m, "identity", false);
        let b = judge_3d_one(ctx, &v, "variant", false);
        if a != b {
            ctx.violation("result-depends-on-numbering-or-dualisation", "delaney3d::pseudo_toroidal_cover", input.clone(), json!({"original": format!("{:?}", a), "variant": format!("{:?}", b)}), "independent of numbering");
        }
        return true;
    }
    judge_3d_one(ctx, &m, input.get("variant").and_then(|x| x.as_str()).unwrap_or("identity"), false);
    true
}
