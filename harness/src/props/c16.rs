//! C16 — simplification keeps a 3D tiling a valid manifold of the same topology.

use super::three_d;
use crate::bridge::*;
use crate::gen;
use crate::monitor::{digest, observe, par_items, Cfg, Ctx, Report};
use crate::oracle::dsym::MSym;
use crate::oracle::groups::{self, Pres, Word};
use crate::oracle::pi1;
use crate::oracle::snf;
use crate::rng::Rng;
use rust_dsymbols::delaney3d::pseudo_toroidal_cover;
use rust_dsymbols::euclidicity::{is_euclidean, Euclidean};
use rust_dsymbols::simplify::simplify;
use rust_dsymbols::verif_hooks::{drain, record_events, Event};
use serde_json::{json, Value};
use std::collections::BTreeSet;

#[derive(Clone)]
pub struct Input {
    pub name: String,
    pub set: MSym,             // branch-free 3D set handed to simplify
    pub topology_clause: bool, // finite pi1, or pseudo-toroidal cover of a corpus symbol
    pub fed_by_euclidicity: bool,
    pub corpus_index: Option<usize>,
}

/// One call of simplify; returns (result as model, move trace).
fn run_simplify(m: &MSym) -> Result<(Option<MSym>, Vec<String>), crate::monitor::PanicInfo> {
    record_events(true);
    let r = observe(|| simplify(&to_partial_dset(m)).map(|r| from_dsym(&r)));
    let events = drain();
    record_events(false);
    let trace: Vec<String> = events
        .iter()
        .filter_map(|e| match e {
            Event::SimplifyMove { op, before, after } => Some(format!("{}:{}->{}", op, before, after)),
            _ => None,
        })
        .collect();
    r.map(|x| (x, trace))
}

/// invariants of the input needed for the topology clause, computed once per input
pub struct InputInvariants {
    pub h1: Vec<num_bigint::BigInt>,
    pub profile: Option<Vec<usize>>,
}

pub fn input_invariants(inp: &Input) -> InputInvariants {
    let h1 = three_d::h1(&inp.set);
    let profile = three_d::lib_presentation(&inp.set).ok().and_then(|p| three_d::profile(&p, 3, 400_000));
    InputInvariants { h1, profile }
}

pub fn judge(ctx: &mut Ctx, inp: &Input, inv: &InputInvariants, repetitions: usize, results: &mut Vec<Vec<Vec<usize>>>) {
    let input = || json!({"input": inp.name, "set": inp.set.to_text()});
    let mut seen_raw = BTreeSet::new();
    let mut seen_traces = BTreeSet::new();
    let mut none_witness: Option<(usize, Vec<String>)> = None;
    for rep in 0..repetitions {
        ctx.eval();
        let (res, trace) = match run_simplify(&inp.set) {
            Ok(x) => x,
            Err(p) => {
                // the statement forbids panics on the pseudo-toroidal covers the euclidicity test feeds in
                if inp.fed_by_euclidicity {
                    ctx.violation(&format!("panic@{}", p.short_loc()), "simplify::simplify", input(), p.to_json(), "simplification never panics on the pseudo-toroidal covers the euclidicity test feeds into it");
                } else {
                    ctx.count("panic_on_input_outside_the_no_panic_clause");
                }
                return;
            }
        };
        for t in &trace {
            let kind = t.split(':').next().unwrap_or("");
            ctx.count(&format!("move.{}", kind));
        }
        if trace.len() > 0 {
            seen_traces.insert(trace.clone());
        }
        let r = match res {
            None => {
                ctx.count("result.none");
                if inp.corpus_index.is_some() {
                    // a torus cover of a known-euclidean symbol: "no result" in one numbering / call and a
                    // D-set in another is a result that depends on the numbering (marker: empty image)
                    ctx.count("result.none_on_a_corpus_torus_cover");
                    results.push(vec![]);
                    none_witness.get_or_insert((rep, trace.clone()));
                }
                continue;
            }
            Some(r) => r,
        };
        ctx.count("result.some");
        seen_raw.insert(r.clone());
        // (1) validity of the returned set
        let mut problem: Option<(&str, Value)> = None;
        if r.dim != 3 || !r.is_complete_set() || !r.ops_are_involutions() {
            problem = Some(("result-not-a-complete-3d-set", json!({"size": r.n})));
        } else if !three_d::unbranched(&r) || !r.v_consistent() {
            problem = Some(("result-not-branch-free", json!({"size": r.n})));
        } else if !r.far_ops_commute() {
            problem = Some(("result-far-operations-do-not-commute", json!({"result": r.to_text()})));
        } else if let Err(e) = three_d::spherical_tiles_and_vertices(&r) {
            problem = Some(("result-tile-or-vertex-figure-is-not-a-sphere", json!({"problem": e, "result": r.to_text()})));
        }
        if let Some((c, o)) = problem {
            ctx.violation(c, "simplify::simplify", input(), json!({"detail": o, "repetition": rep, "moves": trace}), "complete, branch-free, spherical tiles and vertex figures");
            return;
        }
        let connected = r.is_connected();
        if !connected {
            ctx.count("result.disconnected");
        }
        // (2) topology preserved
        if connected && inp.topology_clause {
            let h = three_d::h1(&r);
            if h != inv.h1 {
                ctx.violation(
                    "first-homology-changed",
                    "simplify::simplify",
                    input(),
                    json!({"repetition": rep, "moves": trace, "input_h1": inv.h1.iter().map(|x| x.to_string()).collect::<Vec<_>>(), "result_h1": h.iter().map(|x| x.to_string()).collect::<Vec<_>>(), "result": r.to_text()}),
                    "a connected result has the same first homology as the input",
                );
                return;
            }
            ctx.count("homology_compared");
            if rep == 0 || seen_raw.len() > 1 {
                if let Some(pin) = &inv.profile {
                    // result presentation: textbook (independent) when small enough, library otherwise
                    let tb = pi1::textbook_pi1(&r);
                    let pres = if tb.pres.ngens <= 8 { Some(tb.pres.clone()) } else { three_d::lib_presentation(&r).ok() };
                    if let Some(pout) = pres.and_then(|p| three_d::profile(&p, 3, 400_000)) {
                        if &pout != pin {
                            ctx.violation(
                                "low-index-profile-changed",
                                "simplify::simplify",
                                input(),
                                json!({"repetition": rep, "moves": trace, "input_profile": pin, "result_profile": pout, "result": r.to_text()}),
                                "the same number of conjugacy classes of subgroups of each small index",
                            );
                            return;
                        }
                        ctx.count("low_index_profile_compared");
                    }
                }
            }
        }
        // (3) shape of the result for inputs the euclidicity test feeds in
        if connected && inp.fed_by_euclidicity {
            let tiles = r.nr_components(&[0, 1, 2]);
            let verts = r.nr_components(&[1, 2, 3]);
            let mut deg2: Option<(usize, usize, usize)> = None;
            for (i, j) in [(0usize, 1usize), (1, 2), (2, 3)] {
                for d in 1..=r.n {
                    if r.r(i, j, d) == 2 {
                        deg2 = Some((i, j, d));
                    }
                }
            }
            if tiles != 1 || verts != 1 || deg2.is_some() {
                ctx.violation(
                    "result-not-fully-simplified",
                    "simplify::simplify",
                    input(),
                    json!({"repetition": rep, "moves": trace, "tiles": tiles, "vertices": verts, "two_orbit_of_length_2": deg2.map(|x| vec![x.0, x.1, x.2]), "result": r.to_text()}),
                    "a connected result has a single tile and a single vertex and no edge, face or tile of degree 2",
                );
                return;
            }
            ctx.count("fully_simplified_results");
        }
        // (4) corpus: canonical minimal image of the result
        if inp.corpus_index.is_some() && connected {
            results.push(r.minimal_image().canon_bf_multi());
        }
    }
    if let Some((rep, trace)) = none_witness {
        // witness-level report (the per-corpus-symbol comparison in run() only names the symbol)
        ctx.violation(
            "no-result-for-a-torus-cover-of-a-known-euclidean-symbol",
            "simplify::simplify",
            input(),
            json!({"repetition": rep, "moves": trace, "repetitions": repetitions, "calls_with_a_result": results.iter().filter(|r| !r.is_empty()).count()}),
            "for the known-euclidean corpus the canonical minimal image of the result is the same for every numbering of the input (other numberings and calls give the cube)",
        );
    }
    ctx.add("distinct_raw_outputs", seen_raw.len() as u64);
    ctx.add("distinct_move_traces", seen_traces.len() as u64);
    if seen_traces.len() >= 2 {
        ctx.count("inputs_with_two_or_more_move_traces");
    }
    if seen_raw.len() >= 2 {
        ctx.count("inputs_with_two_or_more_distinct_raw_outputs");
    }
    if seen_traces.iter().any(|t| t.iter().any(|m| !m.starts_with("merge"))) {
        ctx.nontrivial(digest(&("c16", &inp.set)));
    }
    ctx.count("inputs_judged");
}

/// Reason class of the euclidicity test for a symbol (used only to select inputs).
fn euclidicity_reason(m: &MSym) -> Option<String> {
    observe(|| match is_euclidean(&to_partial_dsym(m)) {
        Euclidean::Yes => "yes".to_string(),
        Euclidean::No(s) => format!("no: {}", s),
        Euclidean::Maybe(s, _) => format!("maybe: {}", s),
    })
    .ok()
}

fn gcd(a: usize, b: usize) -> usize {
    if b == 0 { a } else { gcd(b, a % b) }
}

/// Fisher-Yates shuffle driven by a 64-bit LCG (reproduces externally reported numberings exactly).
pub fn lcg_perm1(n: usize, seed: u64) -> Vec<usize> {
    let mut state = seed;
    let mut next = || {
        state = state.wrapping_mul(6364136223846793005).wrapping_add(1442695040888963407);
        state >> 33
    };
    let mut perm: Vec<usize> = (0..=n).collect();
    for i in (2..=n).rev() {
        let j = 1 + (next() as usize) % i;
        perm.swap(i, j);
    }
    perm
}

/// The lens space L(p,q) as a branch-free D-set with 4p chambers: cosets of <(s0 s1)(s2 s3)^q> in the
/// Coxeter group [p,2,p] (harness Todd-Coxeter; the library is not involved).
pub fn lens_space(p: usize, q: usize) -> Option<MSym> {
    let pw = |a: i64, b: i64, k: usize| -> Word { (0..k).flat_map(|_| [a, b]).collect() };
    let pres = Pres {
        ngens: 4,
        rels: vec![vec![1, 1], vec![2, 2], vec![3, 3], vec![4, 4], pw(1, 2, p), pw(2, 3, 2), pw(3, 4, p), pw(1, 3, 2), pw(1, 4, 2), pw(2, 4, 2)],
    };
    let mut h: Word = vec![1, 2];
    h.extend(pw(3, 4, q));
    let t = groups::todd_coxeter(&pres, &[h], 40_000)?;
    if t.rows() != 4 * p {
        return None;
    }
    let n = t.rows();
    let mut op = vec![vec![0usize; n + 1]; 4];
    for i in 0..4 {
        for d in 0..n {
            op[i][d + 1] = t.act(d, (i + 1) as i64) + 1;
        }
    }
    let m = MSym::from_ops(3, n, op);
    if m.is_complete_set() && m.ops_are_involutions() && m.far_ops_commute() && three_d::spherical_tiles_and_vertices(&m).is_ok() { Some(m) } else { None }
}

pub fn build_inputs(cfg: &Cfg) -> Vec<Input> {
    let seed = cfg.seed;
    let mut inputs: Vec<Input> = vec![];
    let mut rng = Rng::stream(seed, 0x16);
    // pseudo-toroidal covers of corpus symbols, in several numberings
    for (ci, c) in gen::corpus().iter().enumerate() {
        let n_num = cfg.tier.pick(3, 5);
        let mut variants = vec![("identity".to_string(), c.clone())];
        for k in 1..n_num {
            variants.push((format!("numbering {}", k), c.renumbered(&rng.perm1(c.n))));
        }
        for (vn, v) in variants {
            if let Ok(Some(cov)) = observe(|| pseudo_toroidal_cover(&to_partial_dsym(&v)).map(|x| from_dsym(&x))) {
                if cov.is_valid_symbol() && three_d::unbranched(&cov) {
                    // the cover as the library numbers it, and many renumberings of the cover itself: which
                    // move fires first depends on the numbering of the set handed to simplify
                    inputs.push(Input { name: format!("pseudo-toroidal cover of corpus symbol {} ({})", gen::EUCLIDEAN_CORPUS[ci], vn), set: MSym::from_ops(3, cov.n, cov.op.clone()), topology_clause: true, fed_by_euclidicity: true, corpus_index: Some(ci) });
                    for r in 0..cfg.tier.pick(10, 160) {
                        let cov2 = cov.renumbered(&rng.perm1(cov.n));
                        inputs.push(Input { name: format!("pseudo-toroidal cover of corpus symbol {} ({}), cover renumbered #{}", gen::EUCLIDEAN_CORPUS[ci], vn, r), set: MSym::from_ops(3, cov2.n, cov2.op.clone()), topology_clause: true, fed_by_euclidicity: true, corpus_index: Some(ci) });
                    }
                }
            }
        }
    }
    // larger tori: 2-, 3- and 4-sheeted covers of the pseudo-toroidal covers of corpus symbols with large faces or
    // vertex figures (what the euclidicity test feeds into simplify for a symbol with trivial point group). The
    // intermediate complexes grow with the torus: chains of removed chambers of length 25 and more occur from
    // about 960 chambers on, 13-21 on the 2- and 3-sheeted ones, 5 on the corpus covers themselves.
    for (ci, c) in gen::corpus().iter().enumerate() {
        let big_faces = (1..=c.n).any(|d| (0..3).any(|i| c.m(i, i + 1, d) >= cfg.tier.pick(8, 6)));
        if !big_faces {
            continue;
        }
        if let Ok(Some(cov)) = observe(|| pseudo_toroidal_cover(&to_partial_dsym(c)).map(|x| from_dsym(&x))) {
            if !cov.is_valid_symbol() || !three_d::unbranched(&cov) || cov.n > cfg.tier.pick(260, 300) {
                continue;
            }
            if let Ok(list) = observe(|| rust_dsymbols::covers::covers(&to_partial_dsym(&cov), 4).iter().map(|x| from_dsym(x)).collect::<Vec<_>>()) {
                for sheets in 2..=4usize {
                    let mut of_size: Vec<&MSym> = list.iter().filter(|x| x.n == sheets * cov.n && x.is_valid_symbol() && three_d::unbranched(x)).collect();
                    rng.shuffle(&mut of_size);
                    for x in of_size.into_iter().take(cfg.tier.pick(if sheets == 4 { 12 } else { 3 }, 16)) {
                        inputs.push(Input { name: format!("{}-sheeted cover of the pseudo-toroidal cover of corpus symbol {} ({} chambers)", sheets, gen::EUCLIDEAN_CORPUS[ci], x.n), set: MSym::from_ops(3, x.n, x.op.clone()), topology_clause: true, fed_by_euclidicity: true, corpus_index: Some(ci) });
                    }
                }
            }
        }
    }
    // duals of the corpus symbols (euclidean as well; the cube is self-dual, so the expected image is the same)
    for (ci, c) in gen::corpus().iter().enumerate() {
        let d = c.dual();
        if let Ok(Some(cov)) = observe(|| pseudo_toroidal_cover(&to_partial_dsym(&d)).map(|x| from_dsym(&x))) {
            if cov.is_valid_symbol() && three_d::unbranched(&cov) {
                inputs.push(Input { name: format!("pseudo-toroidal cover of the dual of corpus symbol {}", gen::EUCLIDEAN_CORPUS[ci]), set: MSym::from_ops(3, cov.n, cov.op.clone()), topology_clause: true, fed_by_euclidicity: true, corpus_index: Some(ci) });
                for r in 0..cfg.tier.pick(8, 160) {
                    let cov2 = cov.renumbered(&rng.perm1(cov.n));
                    inputs.push(Input { name: format!("pseudo-toroidal cover of the dual of corpus symbol {}, cover renumbered #{}", gen::EUCLIDEAN_CORPUS[ci], r), set: MSym::from_ops(3, cov2.n, cov2.op.clone()), topology_clause: true, fed_by_euclidicity: true, corpus_index: Some(ci) });
                }
            }
        }
    }
    // fixed numberings that once made simplify lose the manifold (regression inputs; the symbol is the dual
    // of corpus symbol 553.3 in two of its numberings, the cover is renumbered by a 64-bit LCG shuffle)
    for (text, seeds) in [("<383.1:4 3:2 4,3 4,1 2 3 4,2 4:4,6 2,4 6>", &[404003u64, 404004, 404005][..]), ("<383.1:4 3:2 4,3 4,1 2 3 4,2 4:4,2 6,6 4>", &[403004u64, 403036, 403005][..])] {
        let m = msym_from_text(text).unwrap();
        if let Ok(Some(cov)) = observe(|| pseudo_toroidal_cover(&to_partial_dsym(&m)).map(|x| from_dsym(&x))) {
            if cov.is_valid_symbol() && three_d::unbranched(&cov) {
                for &sd in seeds {
                    let cov2 = cov.renumbered(&lcg_perm1(cov.n, sd));
                    inputs.push(Input { name: format!("pseudo-toroidal cover of {} (dual of corpus symbol 553.3), cover renumbered by LCG shuffle {} [regression numbering]", text, sd), set: MSym::from_ops(3, cov2.n, cov2.op.clone()), topology_clause: true, fed_by_euclidicity: true, corpus_index: Some(10) });
                }
            }
        }
    }
    // lens spaces L(p,q): quotient of the {p,2,p} tiling of the 3-sphere by the cyclic group <x y^q>
    // (x, y the p-fold rotations of the two factors); 4p chambers, large faces, fundamental group Z_p
    let lens: Vec<(usize, usize)> = match cfg.tier {
        crate::monitor::Tier::Quick => vec![(5, 2), (7, 3), (8, 3), (12, 5), (13, 2), (13, 6), (15, 2), (17, 8)],
        crate::monitor::Tier::Thorough => (3..=24usize).flat_map(|p| (1..p).filter(move |&q| gcd(p, q) == 1 && q <= p / 2 + 1).map(move |q| (p, q))).collect(),
    };
    for (p, q) in lens {
        if let Some(l) = lens_space(p, q) {
            inputs.push(Input { name: format!("lens space L({},{}) as cyclic quotient of the {{{},2,{}}} tiling (finite fundamental group)", p, q, p, p), set: l.clone(), topology_clause: true, fed_by_euclidicity: false, corpus_index: None });
            for r in 0..cfg.tier.pick(1, 3) {
                let l2 = l.renumbered(&rng.perm1(l.n));
                inputs.push(Input { name: format!("lens space L({},{}) renumbered #{} (finite fundamental group)", p, q, r), set: l2, topology_clause: true, fed_by_euclidicity: false, corpus_index: None });
            }
        }
    }
    // pseudo-toroidal covers of universe symbols that pass the invariant filter
    let uni = three_d::universe(cfg.tier.pick(3, 4));
    let mut count = 0;
    for m in uni.iter() {
        if count >= cfg.tier.pick(60, 600) {
            break;
        }
        let reason = match euclidicity_reason(m) {
            Some(r) => r,
            None => continue,
        };
        if reason == "no: orbifold invariants do not match" || reason == "no: no pseudo-toroidal cover" {
            continue;
        }
        if let Ok(Some(cov)) = observe(|| pseudo_toroidal_cover(&to_partial_dsym(m)).map(|x| from_dsym(&x))) {
            if cov.is_valid_symbol() && three_d::unbranched(&cov) {
                count += 1;
                inputs.push(Input { name: format!("pseudo-toroidal cover of {} (euclidicity: {})", m.to_text(), reason), set: MSym::from_ops(3, cov.n, cov.op.clone()), topology_clause: false, fed_by_euclidicity: true, corpus_index: None });
            }
        }
    }
    // finite fundamental groups: universal covers of spherical 3D symbols and their quotients
    for t in ["<1.1:1 3:1,1,1,1:3,3,3>", "<1.1:1 3:1,1,1,1:4,3,3>", "<1.1:2 3:2,2,2,2:4,3,3>", "<1.1:1 3:1,1,1,1:3,3,4>", "<1.1:1 3:1,1,1,1:3,4,3>"].iter().take(cfg.tier.pick(3, 5)) {
        let b = msym_from_text(t).unwrap();
        if let Ok(u) = observe(|| from_dsym(&rust_dsymbols::covers::finite_universal_cover(&to_partial_dsym(&b)))) {
            if u.is_valid_symbol() && three_d::unbranched(&u) && u.n <= 1200 {
                inputs.push(Input { name: format!("finite universal cover of {}", t), set: MSym::from_ops(3, u.n, u.op.clone()), topology_clause: true, fed_by_euclidicity: false, corpus_index: None });
            }
        }
        // torsion-free low-index covers: branch-free covers with few sheets over the oriented cover
        if let Ok(cs) = observe(|| rust_dsymbols::covers::covers(&to_partial_dsym(&b), cfg.tier.pick(24, 48)).iter().map(|c| from_dsym(c)).collect::<Vec<_>>()) {
            let mut taken = 0;
            for c in cs {
                if taken < cfg.tier.pick(3, 10) && c.is_valid_symbol() && three_d::unbranched(&c) && c.is_oriented() && three_d::spherical_tiles_and_vertices(&MSym::from_ops(3, c.n, c.op.clone())).is_ok() {
                    let tb = pi1::textbook_pi1(&c);
                    if groups::order(&tb.pres, 3000).is_some() {
                        taken += 1;
                        inputs.push(Input { name: format!("branch-free {}-sheeted cover of {} (finite fundamental group)", c.n / b.n, t), set: MSym::from_ops(3, c.n, c.op.clone()), topology_clause: true, fed_by_euclidicity: false, corpus_index: None });
                    }
                }
            }
        }
    }
    inputs
}

pub fn run(cfg: &Cfg) -> Report {
    let mut report = Report::new(cfg);
    let inputs = build_inputs(cfg);
    report.ctx.add("lens_space_inputs", inputs.iter().filter(|i| i.name.starts_with("lens space")).count() as u64);
    let reps = cfg.tier.pick(5, 25);
    let corpus_results: std::sync::Mutex<Vec<(usize, Vec<Vec<Vec<usize>>>)>> = std::sync::Mutex::new(vec![]);
    let ctx = par_items(cfg, &inputs, |ctx, k, inp| {
        let inv = input_invariants(inp);
        let mut results = vec![];
        let reps = if inp.name.contains("-sheeted cover of the pseudo-toroidal cover") { cfg.tier.pick(5, 3) } else if inp.name.contains("[regression numbering]") { 4 * reps } else if inp.name.contains("cover renumbered") { (reps / 3).max(2) } else if inp.name.starts_with("lens space") { 2 * reps } else { reps };
        judge(ctx, inp, &inv, reps, &mut results);
        if let Some(ci) = inp.corpus_index {
            corpus_results.lock().unwrap().push((ci, results));
        }
        if k % 40 == 0 {
            ctx.sample(|| json!({"input": inp.name, "chambers": inp.set.n, "repetitions": reps}));
        }
    });
    report.absorb(ctx);
    // corpus clause: same canonical minimal image for every numbering and every repetition
    let mut ctx = Ctx::new();
    let all = corpus_results.into_inner().unwrap();
    for ci in 0..gen::EUCLIDEAN_CORPUS.len() {
        let mut distinct: BTreeSet<Vec<Vec<usize>>> = BTreeSet::new();
        let mut n = 0;
        for (c, rs) in &all {
            if *c == ci {
                for r in rs {
                    distinct.insert(r.clone());
                    n += 1;
                }
            }
        }
        if n > 0 {
            ctx.eval();
            ctx.count("corpus_symbols_with_results");
            if distinct.len() > 1 {
                ctx.violation(
                    "canonical-minimal-image-depends-on-numbering-or-repetition",
                    "simplify::simplify",
                    json!({"corpus_symbol": gen::EUCLIDEAN_CORPUS[ci]}),
                    json!({"distinct_canonical_minimal_images": distinct.len(), "results": n}),
                    "for the known-euclidean corpus the canonical minimal image of the result is the same for every numbering of the input",
                );
            }
        }
    }
    report.absorb(ctx);

    report.rule = format!("inputs: pseudo-toroidal covers of the 19 corpus symbols computed from 3-5 numberings of the symbol, each cover as returned and under 10-160 random renumberings of the cover itself, the same for the duals of the corpus symbols, fixed regression numberings of the 553.3 family, lens spaces L(p,q) with 4p chambers (p up to 17, thorough 24) built by the harness's own coset enumeration, pseudo-toroidal covers of every small 3D symbol that passes the euclidicity test's invariant filter, finite universal covers of spherical 3D symbols and their branch-free covers with finite fundamental group; every input repeated {} times (std's per-instance random hash keys make simplify's HashSet iteration, hence its move sequence, vary between calls). Non-trivial = input on which at least one non-merge move fires; distinct = input digests", reps);
    report.explanation = "returned set re-read and checked: complete, branch-free, far operations commute, every (0,1,2)- and (1,2,3)-component loopless with curvature exactly 4 (sphere); topology clause: H1 by the harness's textbook presentation + BigInt SNF on both sides, low-index profile up to index 3 (harness search, on the textbook presentation of the result when it has <= 8 generators, else on the library presentation validated by C09); euclidicity inputs: one tile, one vertex, no 2-orbit of length 2; corpus: one canonical minimal image over all numberings and repetitions; move traces from the library hook are recorded per call".into();
    report.assume("None results are counted, not judged, except on torus covers of corpus symbols (a result exists in other numberings); intermediate states are not judged; the low-index profile of covers with hundreds of chambers uses the library's presentation as an instrument (validated by C09)");
    report.require_counter("inputs_judged", 50);
    report.require_counter("lens_space_inputs", 8);
    report.require_counter("homology_compared", 50);
    report.require_counter("low_index_profile_compared", 10);
    report.require_counter("fully_simplified_results", 50);
    report.require_counter("corpus_symbols_with_results", 19);
    report.require_counter("inputs_with_two_or_more_distinct_raw_outputs", 5);
    let kinds = ["fix_local_1_vertex", "fix_local_2_vertex", "fix_non_disk_face", "split_and_glue"];
    let seen = kinds.iter().filter(|k| report.ctx.counter(&format!("move.{}", k)) > 0).count();
    report.require("move kinds observed (of 4)", seen as u64, 2);
    report.note("move_kinds_not_exercised", json!(kinds.iter().filter(|k| report.ctx.counter(&format!("move.{}", k)) == 0).collect::<Vec<_>>()));
    report
}

pub fn replay(ctx: &mut Ctx, input: &Value) -> bool {
    let set = match input.get("set").and_then(|x| x.as_str()).and_then(msym_from_text) {
        Some(m) => m,
        None => return false,
    };
    let name = input.get("input").and_then(|x| x.as_str()).unwrap_or("").to_string();
    let inp = Input { topology_clause: name.contains("corpus") || name.contains("finite"), fed_by_euclidicity: name.contains("pseudo-toroidal"), corpus_index: if name.contains("corpus symbol") { Some(0) } else { None }, name, set };
    let inv = input_invariants(&inp);
    let mut results = vec![];
    // hash-order dependent: up to 200 repetitions
    judge(ctx, &inp, &inv, 200, &mut results);
    true
}
