//! C17 — 3D euclidicity verdicts are total, invariant and never contradictory.

use super::three_d;
use crate::bridge::*;
use crate::gen;
use crate::monitor::{digest, observe, par_items, Cfg, Ctx, Report};
use crate::oracle::dsym::MSym;
use crate::rng::Rng;
use rust_dsymbols::delaney3d::pseudo_toroidal_cover;
use rust_dsymbols::euclidicity::{is_euclidean, Euclidean};
use serde_json::{json, Value};

#[derive(Clone, Debug, PartialEq, Eq)]
pub enum Class {
    Yes,
    No,
    Undecided,
}

impl Class {
    fn name(&self) -> &'static str {
        match self {
            Class::Yes => "yes",
            Class::No => "no",
            Class::Undecided => "undecided",
        }
    }
}

pub fn verdict(m: &MSym, simple: bool) -> Result<(Class, String), crate::monitor::PanicInfo> {
    observe(|| {
        let r = if simple { is_euclidean(&to_simple_dsym(m)) } else { is_euclidean(&to_partial_dsym(m)) };
        match r {
            Euclidean::Yes => (Class::Yes, "yes".to_string()),
            Euclidean::No(s) => (Class::No, format!("no: {}", s)),
            Euclidean::Maybe(s, _) => (Class::Undecided, format!("undecided: {}", s)),
        }
    })
}

/// Certificate for a yes verdict: a finite branch-free cover with H1 = Z^3 and the subgroup counts of Z^3.
pub fn check_certificate(ctx: &mut Ctx, m: &MSym, max_index: usize) -> bool {
    let input = || json!({"symbol": m.to_text()});
    let cov = match observe(|| pseudo_toroidal_cover(&to_partial_dsym(m)).map(|c| from_dsym(&c))) {
        Ok(Some(c)) => c,
        Ok(None) => {
            ctx.violation("yes-verdict-without-pseudo-toroidal-cover", "euclidicity::is_euclidean", input(), json!("pseudo_toroidal_cover = None"), "a yes verdict is backed by a finite branch-free cover");
            return false;
        }
        Err(p) => {
            ctx.violation(&format!("panic@{}", p.short_loc()), "delaney3d::pseudo_toroidal_cover", input(), p.to_json(), "no panic");
            return false;
        }
    };
    let h = three_d::h1(&cov);
    if !(cov.is_valid_symbol() && cov.is_connected() && cov.is_oriented() && three_d::unbranched(&cov) && cov.covering_map_onto(m).is_some() && three_d::is_z3(&h)) {
        ctx.violation(
            "yes-verdict-certificate-invalid",
            "euclidicity::is_euclidean",
            input(),
            json!({"cover_size": cov.n, "h1": h.iter().map(|x| x.to_string()).collect::<Vec<_>>()}),
            "a finite branch-free oriented cover whose fundamental group has first homology Z^3",
        );
        return false;
    }
    // subgroup counts of Z^3 (library presentation of the cover as instrument, validated by C09)
    match three_d::lib_presentation(&cov).ok().and_then(|p| three_d::profile(&p, max_index, 1_500_000)) {
        Some(prof) => {
            if prof[..] != three_d::Z3_PROFILE[..max_index] {
                ctx.violation(
                    "yes-verdict-cover-has-wrong-subgroup-counts",
                    "euclidicity::is_euclidean",
                    input(),
                    json!({"profile": prof, "expected": three_d::Z3_PROFILE[..max_index].to_vec(), "cover_size": cov.n}),
                    "the numbers of conjugacy classes of subgroups of index 1,2,3(,4) are those of Z^3: 1, 7, 13 (, 35)",
                );
                return false;
            }
            ctx.count("certificates_checked_with_subgroup_counts");
        }
        None => ctx.count("certificates_checked_homology_only"),
    }
    true
}

pub fn judge(ctx: &mut Ctx, cfg: &Cfg, m: &MSym, rng: &mut Rng, corpus: bool, repetitions: usize, with_covers: bool) {
    let input = || json!({"symbol": m.to_text()});
    ctx.eval();
    let (class, reason) = match verdict(m, false) {
        Ok(x) => x,
        Err(p) => {
            ctx.violation(&format!("panic@{}", p.short_loc()), "euclidicity::is_euclidean", input(), p.to_json(), "a verdict without panicking");
            return;
        }
    };
    ctx.count(&format!("reason.{}", reason));
    ctx.count(&format!("class.{}", class.name()));
    let deep = reason != "no: orbifold invariants do not match";
    if corpus && class != Class::Yes {
        ctx.violation("known-euclidean-symbol-not-recognised", "euclidicity::is_euclidean", input(), json!({"verdict": reason}), "every symbol of the known-euclidean corpus receives yes");
        return;
    }
    // variants: renumberings, dual, other representation; repetitions for symbols that reach the deep pipeline
    let mut vars = three_d::variants(cfg, m, rng, cfg.tier.pick(3, 4));
    vars.push(("SimpleDSym representation".to_string(), m.clone()));
    for (k, (name, mv)) in vars.iter().enumerate() {
        if k == 0 {
            continue;
        }
        ctx.eval();
        match verdict(mv, name.starts_with("Simple")) {
            Ok((c2, r2)) => {
                if c2 != class {
                    ctx.violation(
                        "verdict-class-depends-on-numbering-dual-or-representation",
                        "euclidicity::is_euclidean",
                        json!({"symbol": m.to_text(), "variant": name, "variant_symbol": mv.to_text()}),
                        json!({"original": reason, "variant": r2}),
                        "the verdict class is the same for every renumbering of the symbol and for its dual",
                    );
                    return;
                }
            }
            Err(p) => {
                ctx.violation(&format!("panic@{}", p.short_loc()), "euclidicity::is_euclidean", json!({"symbol": mv.to_text()}), p.to_json(), "a verdict without panicking");
                return;
            }
        }
    }
    if deep {
        for rep in 1..repetitions {
            ctx.eval();
            match verdict(m, false) {
                Ok((c2, r2)) => {
                    ctx.distinct("reason_strings_on_repetition", digest(&(m, &r2)));
                    if c2 != class {
                        ctx.violation("verdict-class-differs-between-repetitions", "euclidicity::is_euclidean", input(), json!({"first": reason, "repetition": rep, "then": r2}), "the verdict is a function of the symbol");
                        return;
                    }
                }
                Err(p) => {
                    ctx.violation(&format!("panic@{}", p.short_loc()), "euclidicity::is_euclidean", input(), p.to_json(), "a verdict without panicking");
                    return;
                }
            }
        }
        ctx.count("deep_pipeline_symbols");
        ctx.nontrivial(digest(&("c17", m)));
    }
    if class == Class::Yes {
        if !check_certificate(ctx, m, cfg.tier.pick(3, 4)) {
            return;
        }
    }
    // the certificate cover is itself a finite cover of S: it must not be reported non-euclidean
    if class == Class::Yes && (corpus || cfg.tier == crate::monitor::Tier::Thorough) {
        if let Ok(Some(cov)) = observe(|| pseudo_toroidal_cover(&to_partial_dsym(m)).map(|c| from_dsym(&c))) {
            if cov.is_valid_symbol() && cov.n <= 200 {
                ctx.eval();
                match verdict(&cov, false) {
                    Ok((cc, cr)) => {
                        ctx.count("certificate_covers_judged");
                        if cc == Class::No {
                            ctx.violation(
                                "verdicts-contradict-along-a-finite-cover",
                                "euclidicity::is_euclidean",
                                json!({"symbol": m.to_text(), "cover": cov.to_text()}),
                                json!({"symbol_verdict": reason, "cover_verdict": cr, "cover": "the pseudo-toroidal cover of the symbol itself"}),
                                "if a symbol is reported euclidean no cover of it is reported non-euclidean",
                            );
                            return;
                        }
                    }
                    Err(p) => {
                        ctx.violation(&format!("panic@{}", p.short_loc()), "euclidicity::is_euclidean", json!({"symbol": cov.to_text()}), p.to_json(), "a verdict without panicking");
                        return;
                    }
                }
            }
        }
    }
    // covers with <= 3 sheets (corpus symbols with <= 3 chambers: <= 6 sheets): never {yes, no} across (S, C)
    if with_covers && deep {
        let max_sheets = if !corpus {
            // symbols reported euclidean with at most 3 chambers: up to 24 chambers / 8 sheets, like the corpus
            if class == Class::Yes && m.n <= 3 { (24 / m.n.max(1)).clamp(3, 8) } else { 3 }
        } else {
            // corpus: chambers of the cover bounded by 18 (thorough 32), 2..=6 (thorough 8) sheets
            // (24 chambers / 8 sheets also in the quick tier: the smallest branch-free covers whose orientation cover
            // is a flat manifold other than the 3-torus have 24 chambers, 8 sheets over a 3-chamber symbol)
            let (budget, cap) = (cfg.tier.pick(24, 32), 8);
            (budget / m.n.max(1)).clamp(2, cap)
        };
        if let Ok(cs) = observe(|| rust_dsymbols::covers::covers(&to_partial_dsym(m), max_sheets).iter().map(|c| from_dsym(c)).collect::<Vec<_>>()) {
            for c in cs {
                if c.n == m.n || !c.is_valid_symbol() || !c.is_connected() || c.covering_map_onto(m).is_none() || !gen::locally_spherical_3d(&c) {
                    continue;
                }
                ctx.eval();
                match verdict(&c, false) {
                    Ok((cc, cr)) => {
                        ctx.count("cover_pairs_compared");
                        let contradiction = (class == Class::Yes && cc == Class::No) || (class == Class::No && cc == Class::Yes);
                        if contradiction {
                            ctx.violation(
                                "verdicts-contradict-along-a-finite-cover",
                                "euclidicity::is_euclidean",
                                json!({"symbol": m.to_text(), "cover": c.to_text()}),
                                json!({"symbol_verdict": reason, "cover_verdict": cr, "sheets": c.n / m.n}),
                                "if a symbol is reported euclidean no cover of it is reported non-euclidean and vice versa",
                            );
                            return;
                        }
                    }
                    Err(p) => {
                        ctx.violation(&format!("panic@{}", p.short_loc()), "euclidicity::is_euclidean", json!({"symbol": c.to_text()}), p.to_json(), "a verdict without panicking");
                        return;
                    }
                }
            }
        }
    }
}

pub fn run(cfg: &Cfg) -> Report {
    let mut report = Report::new(cfg);
    // out-of-domain calls between judged cases (a 2D symbol, a 1D symbol, a 3D symbol with a 5-fold axis): whatever
    // they answer - a panic is fine - the verdicts on valid symbols afterwards must be unaffected
    crate::monitor::set_poison(|k| {
        let t = ["<1.1:1:1,1,1:4,4>", "<1.1:1 1:1,1:4>", "<1.1:1 3:1,1,1,1:5,3,5>", "<1.1:2 3:2,1 2,1 2,2:3 3,3 4,4 4>"][(k % 4) as usize];
        if let Ok(ds) = t.parse::<rust_dsymbols::dsyms::PartialDSym>() {
            let _ = is_euclidean(&ds);
        }
    });
    let seed = cfg.seed;
    let mut uni = three_d::universe(cfg.tier.pick(3, 4));
    uni.extend(three_d::sampled_larger(seed, &[5, 6], cfg.tier.pick(1, 3), cfg.tier.pick(1500, 30000)));
    let reps = cfg.tier.pick(3, 5);
    let ctx = par_items(cfg, &uni, |ctx, k, m| {
        let mut rng = Rng::stream(seed, 0x17_0000 + k as u64);
        judge(ctx, cfg, m, &mut rng, false, reps, true);
        if k % 900 == 0 {
            ctx.sample(|| json!({"symbol": m.to_text(), "verdict": verdict(m, false).map(|x| x.1).unwrap_or_default()}));
        }
    });
    report.absorb(ctx);
    // corpus closure
    let corpus = gen::corpus();
    let ctx = par_items(cfg, &corpus, |ctx, k, m| {
        let mut rng = Rng::stream(seed, 0x17_8000 + k as u64);
        judge(ctx, cfg, m, &mut rng, true, reps, m.n <= cfg.tier.pick(9, 16));
        // renumberings and duals of corpus symbols are euclidean too
        for (name, v) in three_d::variants(cfg, m, &mut rng, cfg.tier.pick(3, 6)).into_iter().skip(1) {
            ctx.eval();
            match verdict(&v, false) {
                Ok((c, r)) => {
                    if c != Class::Yes {
                        ctx.violation("known-euclidean-symbol-not-recognised", "euclidicity::is_euclidean", json!({"symbol": v.to_text(), "variant_of": m.to_text(), "variant": name}), json!({"verdict": r}), "yes for the corpus, its renumberings and duals");
                    }
                }
                Err(p) => ctx.violation(&format!("panic@{}", p.short_loc()), "euclidicity::is_euclidean", json!({"symbol": v.to_text()}), p.to_json(), "a verdict without panicking"),
            }
        }
        // small corpus symbols: EVERY numbering of the symbol and of its dual (the numbering of the input decides
        // the numbering of the cover that simplification sees)
        if m.n <= cfg.tier.pick(4, 5) {
            for p in gen::all_perms1(m.n) {
                for (name, v) in [("renumbering", m.renumbered(&p)), ("renumbered dual", m.dual().renumbered(&p))] {
                    ctx.eval();
                    match verdict(&v, false) {
                        Ok((c, r)) => {
                            ctx.count("corpus_all_numberings_judged");
                            if c != Class::Yes {
                                ctx.violation("known-euclidean-symbol-not-recognised", "euclidicity::is_euclidean", json!({"symbol": v.to_text(), "variant_of": m.to_text(), "variant": format!("{} {:?}", name, &p[1..])}), json!({"verdict": r}), "yes for the corpus, its renumberings and duals");
                            }
                        }
                        Err(pn) => ctx.violation(&format!("panic@{}", pn.short_loc()), "euclidicity::is_euclidean", json!({"symbol": v.to_text()}), pn.to_json(), "a verdict without panicking"),
                    }
                }
            }
        }
        ctx.count("corpus_symbols");
    });
    report.absorb(ctx);

    report.rule = "every complete 3D symbol with v in {1,2,3,4,6} and spherical tiles and vertex figures on connected sets <= 3 (thorough 4) chambers, plus sampled ones with 5-6 chambers; each as given, with 2-3 renumberings, its dual and in the SimpleDSym representation; symbols that pass the invariant filter are repeated 3-5 times (hash-order nondeterminism of simplify) and compared with their validated covers of <= 3 sheets; the 19 corpus symbols with renumberings and duals. Non-trivial = symbol that passes the invariant filter (reaches the deep pipeline); distinct = symbol digests".into();
    report.explanation = "verdict class compared across variants and repetitions; yes => certificate re-derived: pseudo_toroidal_cover is Some(C), C is an oriented branch-free covering (model search), H1(C) = Z^3 by the harness's textbook presentation and BigInt SNF, and the harness's own low-index search finds 1, 7, 13 (thorough: 35) classes of index 1, 2, 3 (4) on the library presentation of C; along covers never {yes,no}; corpus => yes. The histogram of reason strings is recorded so that never-reached branches are visible".into();
    report.assume("'is euclidean' itself is not decidable by observation: consistency, certificates and the corpus are; the corpus is the set of literature symbols quoted by the repository");
    report.require_counter("class.yes", 20);
    report.require_counter("deep_pipeline_symbols", 40);
    report.require_counter("corpus_symbols", 19);
    report.require_counter("certificates_checked_with_subgroup_counts", 20);
    report.require_counter("cover_pairs_compared", 10);
    report.require_counter("certificate_covers_judged", 10);
    report
}

pub fn replay(ctx: &mut Ctx, input: &Value) -> bool {
    let m = match input.get("symbol").and_then(|x| x.as_str()).and_then(msym_from_text) {
        Some(m) => m,
        None => return false,
    };
    let cfg = Cfg { prop: "C17".into(), tier: crate::monitor::Tier::Thorough, seed: 1, threads: 1, lane: "checked".into(), verif_dir: "/verif".into() };
    let mut rng = Rng::new(1);
    if let Some(c) = input.get("cover").and_then(|x| x.as_str()).and_then(msym_from_text) {
        if let (Ok((a, ar)), Ok((b, br))) = (verdict(&m, false), verdict(&c, false)) {
            if (a == Class::Yes && b == Class::No) || (a == Class::No && b == Class::Yes) {
                ctx.violation("verdicts-contradict-along-a-finite-cover", "euclidicity::is_euclidean", input.clone(), json!({"symbol_verdict": ar, "cover_verdict": br}), "no contradiction along covers");
            }
        }
        return true;
    }
    if let Some(v) = input.get("variant_symbol").and_then(|x| x.as_str()).and_then(msym_from_text) {
        // hash-order dependent: repeat
        for _ in 0..40 {
            if let (Ok((a, ar)), Ok((b, br))) = (verdict(&m, false), verdict(&v, false)) {
                if a != b {
                    ctx.violation("verdict-class-depends-on-numbering-dual-or-representation", "euclidicity::is_euclidean", input.clone(), json!({"original": ar, "variant": br}), "same class");
                    break;
                }
            }
        }
        return true;
    }
    judge(ctx, &cfg, &m, &mut rng, false, 40, true);
    true
}
