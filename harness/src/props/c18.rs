//! C18 — exact linear algebra agrees with rational arithmetic for every backend.

use crate::monitor::{digest, observe, par_range, Cfg, Ctx, PanicInfo, Report};
use crate::oracle::linalg::{self, q, QMat, Q};
use crate::rng::Rng;
use num_bigint::BigInt;
use num_rational::BigRational;
use num_traits::{One, Zero};
use rust_dsymbols::geometry::matrix::Matrix;
use rust_dsymbols::geometry::modular_solver;
use rust_dsymbols::geometry::prime_residue_classes::PrimeResidueClass;
use rust_dsymbols::geometry::traits::{Array2d, Entry, ScalarPtr};
use rust_dsymbols::geometry::vec_matrix::VecMatrix;
use rust_dsymbols::pgraphs::{PeriodicGraph, VectorLabelledEdge};
use serde_json::{json, Value};
use std::ops::Div;

pub const BIG_PRIME: i64 = 3_037_000_493;

#[derive(Clone, Copy, PartialEq, Eq, Debug)]
pub enum Field {
    Int,
    Rat,
    Mod(i64),
}

/// A scalar backend of the library as seen by the monitor.
pub trait Backend: Entry + Clone + Div<Output = Self>
where
    for<'a> &'a Self: ScalarPtr<Self>,
{
    fn field() -> Field;
    fn name() -> String;
    fn from_i(x: i64) -> Self;
    /// value as a rational (Int, Rat) ...
    fn to_q(&self) -> Q;
    /// ... or as a canonical residue (Mod)
    fn to_res(&self) -> i128;
}

impl Backend for i64 {
    fn field() -> Field {
        Field::Int
    }
    fn name() -> String {
        "i64".into()
    }
    fn from_i(x: i64) -> Self {
        x
    }
    fn to_q(&self) -> Q {
        q(*self)
    }
    fn to_res(&self) -> i128 {
        0
    }
}

impl Backend for BigRational {
    fn field() -> Field {
        Field::Rat
    }
    fn name() -> String {
        "BigRational".into()
    }
    fn from_i(x: i64) -> Self {
        BigRational::from_integer(BigInt::from(x))
    }
    fn to_q(&self) -> Q {
        self.clone()
    }
    fn to_res(&self) -> i128 {
        0
    }
}

impl<const P: i64> Backend for PrimeResidueClass<P> {
    fn field() -> Field {
        Field::Mod(P)
    }
    fn name() -> String {
        format!("PrimeResidueClass<{}>", P)
    }
    fn from_i(x: i64) -> Self {
        PrimeResidueClass::<P>::from(x)
    }
    fn to_q(&self) -> Q {
        Q::zero()
    }
    fn to_res(&self) -> i128 {
        i64::from(*self) as i128
    }
}

fn is_overflow(p: &PanicInfo) -> bool {
    p.msg.contains("overflow")
}

fn to_vm<T: Backend>(m: &[Vec<i64>], ncols: usize) -> VecMatrix<T>
where
    for<'a> &'a T: ScalarPtr<T>,
{
    let mut r = VecMatrix::<T>::new(m.len(), ncols);
    for i in 0..m.len() {
        for j in 0..ncols {
            r[i][j] = T::from_i(m[i][j]);
        }
    }
    r
}

fn i128mat(m: &[Vec<i64>]) -> Vec<Vec<i128>> {
    m.iter().map(|r| r.iter().map(|&x| x as i128).collect()).collect()
}

/// generic view of a library matrix as oracle values
fn read_q<T: Backend, M: Array2d<T>>(m: &M) -> QMat
where
    for<'a> &'a T: ScalarPtr<T>,
{
    (0..m.nr_rows()).map(|i| (0..m.nr_columns()).map(|j| m[(i, j)].to_q()).collect()).collect()
}

fn read_res<T: Backend, M: Array2d<T>>(m: &M) -> Vec<Vec<i128>>
where
    for<'a> &'a T: ScalarPtr<T>,
{
    (0..m.nr_rows()).map(|i| (0..m.nr_columns()).map(|j| m[(i, j)].to_res()).collect()).collect()
}

fn qmat_json(m: &QMat) -> Value {
    json!(m.iter().map(|r| r.iter().map(|x| x.to_string()).collect::<Vec<_>>()).collect::<Vec<_>>())
}

/// What the library returned for one matrix (and right-hand side), already converted to
/// oracle-side values, so that VecMatrix and const-generic Matrix share the judging code.
pub struct Observed {
    pub rank: Result<usize, PanicInfo>,
    pub det: Option<Result<(Q, i128), PanicInfo>>,
    pub null_cols: Result<(QMat, Vec<Vec<i128>>, usize, usize), PanicInfo>, // matrix values (q, res), rows, cols
    pub null_list_len: Result<usize, PanicInfo>,
    pub solve: Result<Option<(QMat, Vec<Vec<i128>>, usize, usize)>, PanicInfo>,
    pub inverse: Option<Result<Option<(QMat, Vec<Vec<i128>>)>, PanicInfo>>,
}

pub fn observe_vec<T: Backend>(a: &[Vec<i64>], ncols: usize, b: &[Vec<i64>], bcols: usize) -> Observed
where
    for<'a> &'a T: ScalarPtr<T>,
{
    let am: VecMatrix<T> = to_vm(a, ncols);
    let bm: VecMatrix<T> = to_vm(b, bcols);
    let square = a.len() == ncols;
    Observed {
        rank: observe(|| am.rank()),
        det: if square { Some(observe(|| am.determinant()).map(|d| (d.to_q(), d.to_res()))) } else { None },
        null_cols: observe(|| am.null_space_matrix()).map(|n| (read_q(&n), read_res(&n), n.nr_rows(), n.nr_columns())),
        null_list_len: observe(|| {
            let l = am.null_space();
            // every listed vector must be a column of the right height
            for v in &l {
                assert!(v.nr_rows() == ncols && v.nr_columns() == 1, "null_space vector has wrong shape");
            }
            l.len()
        }),
        solve: observe(|| am.solve(&bm)).map(|o| o.map(|x| (read_q(&x), read_res(&x), x.nr_rows(), x.nr_columns()))),
        inverse: if square { Some(observe(|| am.inverse()).map(|o| o.map(|x| (read_q(&x), read_res(&x))))) } else { None },
    }
}

fn overflow_in_domain(a: &[Vec<i64>], b: &[Vec<i64>], ncols: usize) -> bool {
    let mx = a.iter().chain(b.iter()).flatten().map(|x| x.abs()).max().unwrap_or(0);
    mx <= 9 && a.len() <= 3 && ncols <= 3
}

/// Judges the observations for one case against exact arithmetic.
pub fn judge(ctx: &mut Ctx, field: Field, api_prefix: &str, a: &[Vec<i64>], ncols: usize, b: &[Vec<i64>], bcols: usize, obs: Observed, release_lane: bool) -> bool {
    let input = || json!({"backend": api_prefix, "a": a, "nr_columns": ncols, "b": b, "b_columns": bcols});
    let nrows = a.len();
    let square = nrows == ncols;
    let aq = linalg::qmat(a);
    let bq = linalg::qmat(b);
    let ai = i128mat(a);
    let bi = i128mat(b);
    let modp = match field {
        Field::Mod(p) => Some(p as i128),
        _ => None,
    };
    let rank_true = match modp {
        Some(p) => linalg::rank_mod(&ai, ncols, p),
        None => linalg::rank(&aq, ncols),
    };
    // In the release lane i64 arithmetic wraps silently; judge the i64 backend there only where
    // overflow is impossible.
    if field == Field::Int && release_lane && !overflow_in_domain(a, b, ncols) {
        ctx.out_of_domain("i64-magnitude-release-lane");
        return false;
    }
    let mut handle_panic = |ctx: &mut Ctx, api: &str, p: &PanicInfo| {
        if field == Field::Int && is_overflow(p) && !overflow_in_domain(a, b, ncols) {
            ctx.out_of_domain("i64-overflow");
        } else {
            ctx.violation(&format!("panic@{}", p.short_loc()), &format!("{}::{}", api_prefix, api), input(), p.to_json(), "no shape makes these routines panic");
        }
    };
    ctx.eval();

    match &obs.rank {
        Ok(r) => {
            if *r != rank_true {
                ctx.violation("rank", &format!("{}::rank", api_prefix), input(), json!({"got": r, "expected": rank_true}), "rank over the rationals / the prime field");
            }
        }
        Err(p) => handle_panic(ctx, "rank", p),
    }

    if let Some(d) = &obs.det {
        match d {
            Ok((dq, dr)) => match modp {
                Some(p) => {
                    let want = linalg::det_mod(&ai, p);
                    if *dr != want {
                        ctx.violation("determinant", &format!("{}::determinant", api_prefix), input(), json!({"got": dr.to_string(), "expected": want.to_string()}), "exact determinant in the prime field");
                    }
                }
                None => {
                    let want = if nrows <= 6 { linalg::det_leibniz(&aq) } else { linalg::det_elim(&aq) };
                    if *dq != want {
                        ctx.violation("determinant", &format!("{}::determinant", api_prefix), input(), json!({"got": dq.to_string(), "expected": want.to_string()}), "exact determinant");
                    }
                }
            },
            Err(p) => handle_panic(ctx, "determinant", p),
        }
    }

    match &obs.null_cols {
        Ok((nq, nres, nr, nc)) => {
            let want_cols = ncols - rank_true;
            if *nc != want_cols || (*nr != ncols && *nc > 0) {
                ctx.violation(
                    "null-space-dimension",
                    &format!("{}::null_space_matrix", api_prefix),
                    input(),
                    json!({"shape": [nr, nc], "expected_columns": want_cols}),
                    "exactly columns-minus-rank columns",
                );
            } else if *nc > 0 {
                match modp {
                    Some(p) => {
                        let prod = linalg::mat_mul_mod(&ai, nres, p);
                        if prod.iter().flatten().any(|&x| x != 0) {
                            ctx.violation("null-space-not-annihilated", &format!("{}::null_space_matrix", api_prefix), input(), json!({"null_space": nres.iter().map(|r| r.iter().map(|x| x.to_string()).collect::<Vec<_>>()).collect::<Vec<_>>()}), "A * N = 0");
                        }
                        // independence: rank of N (as rows of the transpose)
                        let nt: Vec<Vec<i128>> = (0..*nc).map(|j| (0..*nr).map(|i| nres[i][j]).collect()).collect();
                        if linalg::rank_mod(&nt, *nr, p) != *nc {
                            ctx.violation("null-space-columns-dependent", &format!("{}::null_space_matrix", api_prefix), input(), json!({"columns": nc}), "independent columns");
                        }
                    }
                    None => {
                        let prod = linalg::mat_mul(&aq, nq);
                        if prod.iter().flatten().any(|x| !x.is_zero()) {
                            ctx.violation("null-space-not-annihilated", &format!("{}::null_space_matrix", api_prefix), input(), json!({"null_space": qmat_json(nq)}), "A * N = 0");
                        }
                        let nt: QMat = (0..*nc).map(|j| (0..*nr).map(|i| nq[i][j].clone()).collect()).collect();
                        if linalg::rank(&nt, *nr) != *nc {
                            ctx.violation("null-space-columns-dependent", &format!("{}::null_space_matrix", api_prefix), input(), json!({"null_space": qmat_json(nq)}), "independent columns");
                        }
                    }
                }
            }
        }
        Err(p) => handle_panic(ctx, "null_space_matrix", p),
    }
    match &obs.null_list_len {
        Ok(l) => {
            if *l != ncols - rank_true {
                ctx.violation("null-space-dimension", &format!("{}::null_space", api_prefix), input(), json!({"vectors": l, "expected": ncols - rank_true}), "exactly columns-minus-rank vectors");
            }
        }
        Err(p) => handle_panic(ctx, "null_space", p),
    }

    // solve
    let consistent = match modp {
        Some(p) => linalg::consistent_mod(&ai, ncols, &bi, p),
        None => linalg::consistent(&aq, ncols, &bq),
    };
    let unimodular = square && modp.is_none() && {
        let d = linalg::det_elim(&aq);
        d == Q::one() || d == -Q::one()
    };
    match &obs.solve {
        Ok(Some((xq, xres, xr, xc))) => {
            if *xr != ncols || *xc != bcols {
                ctx.violation("solution-shape", &format!("{}::solve", api_prefix), input(), json!([xr, xc]), "columns(A) x columns(B)");
            } else {
                let ok = match modp {
                    Some(p) => {
                        let prod = linalg::mat_mul_mod(&ai, xres, p);
                        (0..nrows).all(|i| (0..bcols).all(|j| prod[i][j] == linalg::modp(bi[i][j], p)))
                    }
                    None => linalg::mat_mul(&aq, xq) == bq,
                };
                if !ok {
                    ctx.violation("solve-returned-non-solution", &format!("{}::solve", api_prefix), input(), json!({"x": match modp { Some(_) => json!(xres.iter().map(|r| r.iter().map(|x| x.to_string()).collect::<Vec<_>>()).collect::<Vec<_>>()), None => qmat_json(xq) }}), "A * X = B exactly");
                }
            }
            ctx.count("solve.some");
        }
        Ok(None) => {
            ctx.count("solve.none");
            let must = match field {
                Field::Int => unimodular,
                _ => consistent,
            };
            if must {
                ctx.violation("solve-missed-a-solution", &format!("{}::solve", api_prefix), input(), json!("None"), "a solution whenever the system is consistent over a field (integers: whenever A is unimodular)");
            }
        }
        Err(p) => handle_panic(ctx, "solve", p),
    }
    if consistent {
        ctx.count("systems.consistent");
    } else {
        ctx.count("systems.inconsistent");
    }

    if let Some(inv) = &obs.inverse {
        let singular = rank_true < nrows;
        match inv {
            Ok(Some((xq, xres))) => {
                let ok = match modp {
                    Some(p) => {
                        let prod = linalg::mat_mul_mod(&ai, xres, p);
                        (0..nrows).all(|i| (0..nrows).all(|j| prod[i][j] == if i == j { 1 } else { 0 }))
                    }
                    None => {
                        let prod = linalg::mat_mul(&aq, xq);
                        (0..nrows).all(|i| (0..nrows).all(|j| prod[i][j] == if i == j { Q::one() } else { Q::zero() }))
                    }
                };
                if !ok {
                    ctx.violation("inverse-wrong", &format!("{}::inverse", api_prefix), input(), json!("A * inverse != identity"), "A * A^-1 = I");
                }
            }
            Ok(None) => {
                let must = match field {
                    Field::Int => unimodular,
                    _ => !singular,
                };
                if must {
                    ctx.violation("inverse-missed", &format!("{}::inverse", api_prefix), input(), json!("None"), "inverse exists");
                }
            }
            Err(p) => handle_panic(ctx, "inverse", p),
        }
    }
    // non-triviality: rank deficient, or non-square, or has a negative entry
    rank_true < nrows.min(ncols) || nrows != ncols || a.iter().flatten().any(|&x| x < 0)
}

// ---------------------------------------------------------------------------
// const-generic Matrix through the cfg-gated wrappers

/// Dispatch over shapes N,M in 1..=4 and right-hand sides with 1 or 2 columns.
fn observe_matrix_generic<T: Backend + 'static>(n: usize, m: usize, k: usize, a: &[Vec<i64>], b: &[Vec<i64>]) -> Option<Observed>
where
    for<'a> &'a T: ScalarPtr<T>,
{
    macro_rules! shape {
        ($n:literal, $m:literal) => {
            if n == $n && m == $m {
                return Some(if k == 1 {
                    if $n == $m { observe_fixed_square_dispatch::<T, $n, 1>(a, b) } else { observe_fixed_dispatch::<T, $n, $m, 1>(a, b) }
                } else {
                    if $n == $m { observe_fixed_square_dispatch::<T, $n, 2>(a, b) } else { observe_fixed_dispatch::<T, $n, $m, 2>(a, b) }
                });
            }
        };
    }
    shape!(1, 1);
    shape!(1, 2);
    shape!(1, 3);
    shape!(1, 4);
    shape!(2, 1);
    shape!(2, 2);
    shape!(2, 3);
    shape!(2, 4);
    shape!(3, 1);
    shape!(3, 2);
    shape!(3, 3);
    shape!(3, 4);
    shape!(4, 1);
    shape!(4, 2);
    shape!(4, 3);
    shape!(4, 4);
    None
}

fn observe_fixed_dispatch<T: Backend, const N: usize, const M: usize, const K: usize>(a: &[Vec<i64>], b: &[Vec<i64>]) -> Observed
where
    for<'a> &'a T: ScalarPtr<T>,
{
    let am: Matrix<T, N, M> = Matrix::from(core::array::from_fn(|i| core::array::from_fn(|j| T::from_i(a[i][j]))));
    let bm: Matrix<T, N, K> = Matrix::from(core::array::from_fn(|i| core::array::from_fn(|j| T::from_i(b[i][j]))));
    Observed {
        rank: observe(|| am.verif_rank()),
        det: None,
        null_cols: observe(|| am.verif_null_space()).map(|l| {
            let nc = l.len();
            let nq: QMat = (0..M).map(|i| (0..nc).map(|j| l[j][(i, 0)].to_q()).collect()).collect();
            let nr: Vec<Vec<i128>> = (0..M).map(|i| (0..nc).map(|j| l[j][(i, 0)].to_res()).collect()).collect();
            (nq, nr, M, nc)
        }),
        null_list_len: observe(|| am.verif_null_space().len()),
        solve: observe(|| am.verif_solve(&bm)).map(|o| o.map(|x| (read_q(&x), read_res(&x), x.nr_rows(), x.nr_columns()))),
        inverse: None,
    }
}

fn observe_fixed_square_dispatch<T: Backend, const N: usize, const K: usize>(a: &[Vec<i64>], b: &[Vec<i64>]) -> Observed
where
    for<'a> &'a T: ScalarPtr<T>,
{
    let mut o = observe_fixed_dispatch::<T, N, N, K>(a, b);
    let am: Matrix<T, N, N> = Matrix::from(core::array::from_fn(|i| core::array::from_fn(|j| T::from_i(a[i][j]))));
    o.det = Some(observe(|| am.verif_determinant()).map(|d| (d.to_q(), d.to_res())));
    o.inverse = Some(observe(|| am.verif_inverse()).map(|o| o.map(|x| (read_q(&x), read_res(&x)))));
    o
}

// ---------------------------------------------------------------------------
// workload

#[derive(Clone, Debug)]
pub struct Case {
    pub a: Vec<Vec<i64>>,
    pub ncols: usize,
    pub b: Vec<Vec<i64>>,
    pub bcols: usize,
}

fn mat_mul_i(a: &[Vec<i64>], b: &[Vec<i64>], n: usize, k: usize, m: usize) -> Vec<Vec<i64>> {
    (0..n).map(|i| (0..m).map(|j| (0..k).map(|t| a[i][t] * b[t][j]).sum()).collect()).collect()
}

/// Random case; `mag` bounds entry magnitudes (kept small enough that products below fit i64).
pub fn random_case(rng: &mut Rng, nrows: usize, ncols: usize, mag: i64, maxdim_for_b: usize) -> Case {
    let bcols = 1 + rng.below(maxdim_for_b.max(1));
    let style = rng.below(7);
    let mut a = vec![vec![0i64; ncols]; nrows];
    match style {
        0 => {
            // forced rank: product of thin random factors with small entries
            let r = 1 + rng.below(nrows.min(ncols));
            let r = if rng.chance(1, 2) { r } else { (r + 1) / 2 };
            let small = ((mag as f64).sqrt() as i64).clamp(1, 3);
            let x: Vec<Vec<i64>> = (0..nrows).map(|_| (0..r).map(|_| rng.range(-small, small)).collect()).collect();
            let y: Vec<Vec<i64>> = (0..r).map(|_| (0..ncols).map(|_| rng.range(-small, small)).collect()).collect();
            a = mat_mul_i(&x, &y, nrows, r, ncols);
        }
        1 if nrows == ncols => {
            // unimodular: product of elementary matrices
            for i in 0..nrows {
                a[i][i] = 1;
            }
            for _ in 0..(2 * nrows) {
                let (i, j) = (rng.below(nrows), rng.below(nrows));
                if i != j {
                    let f = rng.range(-2, 2);
                    for c in 0..ncols {
                        a[i][c] += f * a[j][c];
                    }
                } else if rng.chance(1, 2) {
                    for c in 0..ncols {
                        a[i][c] = -a[i][c];
                    }
                }
            }
            if rng.chance(1, 2) && nrows >= 2 {
                a.swap(0, nrows - 1);
            }
        }
        2 => {
            // sparse {-1,0,1}
            for i in 0..nrows {
                for j in 0..ncols {
                    a[i][j] = if rng.chance(1, 2) { rng.range(-1, 1) } else { 0 };
                }
            }
        }
        3 => {
            // leading zero columns / rows, staircase shapes
            for i in 0..nrows {
                for j in 0..ncols {
                    a[i][j] = if j >= i.min(ncols) + rng.below(2) { rng.range(-mag.min(9), mag.min(9)) } else { 0 };
                }
            }
            if rng.chance(1, 2) {
                a.reverse();
            }
        }
        _ => {
            for i in 0..nrows {
                for j in 0..ncols {
                    a[i][j] = rng.range(-mag, mag);
                }
            }
        }
    }
    // right-hand side: consistent (A*X) or arbitrary
    let b = if rng.chance(1, 2) {
        let small = if mag > 100 { 3 } else { 2 };
        let x: Vec<Vec<i64>> = (0..ncols).map(|_| (0..bcols).map(|_| rng.range(-small, small)).collect()).collect();
        mat_mul_i(&a, &x, nrows, ncols, bcols)
    } else {
        (0..nrows).map(|_| (0..bcols).map(|_| rng.range(-mag.min(1000), mag.min(1000))).collect()).collect()
    };
    Case { a, ncols, b, bcols }
}

fn run_backend<T: Backend + 'static>(ctx: &mut Ctx, c: &Case, key: u64, release: bool)
where
    for<'a> &'a T: ScalarPtr<T>,
{
    let name = format!("VecMatrix<{}>", T::name());
    let obs = observe_vec::<T>(&c.a, c.ncols, &c.b, c.bcols);
    if judge(ctx, T::field(), &name, &c.a, c.ncols, &c.b, c.bcols, obs, release) {
        ctx.nontrivial(key ^ digest(&name));
    }
    ctx.count(&format!("cases.{}", name));
    if c.a.len() <= 4 && c.ncols <= 4 && c.bcols <= 2 {
        if let Some(obs) = observe_matrix_generic::<T>(c.a.len(), c.ncols, c.bcols, &c.a, &c.b) {
            let name = format!("Matrix<{},N,M>", T::name());
            if judge(ctx, T::field(), &name, &c.a, c.ncols, &c.b, c.bcols, obs, release) {
                ctx.nontrivial(key ^ digest(&name));
            }
            ctx.count(&format!("cases.{}", name));
        }
    }
}

pub fn run_case_all_backends(ctx: &mut Ctx, c: &Case, key: u64, release: bool, which: usize) {
    // every case: rationals and one prime field; i64 when magnitudes are moderate
    run_backend::<BigRational>(ctx, c, key, release);
    match which % 6 {
        0 => run_backend::<PrimeResidueClass<2>>(ctx, c, key, release),
        1 => run_backend::<PrimeResidueClass<3>>(ctx, c, key, release),
        2 => run_backend::<PrimeResidueClass<7>>(ctx, c, key, release),
        3 => run_backend::<PrimeResidueClass<101>>(ctx, c, key, release),
        4 => run_backend::<PrimeResidueClass<65537>>(ctx, c, key, release),
        _ => run_backend::<PrimeResidueClass<BIG_PRIME>>(ctx, c, key, release),
    }
    let mx = c.a.iter().chain(c.b.iter()).flatten().map(|x| x.abs()).max().unwrap_or(0);
    if mx <= 10_000 {
        run_backend::<i64>(ctx, c, key, release);
    }
}

// ---------------------------------------------------------------------------
// prime residue classes

fn residues<const P: i64>(ctx: &mut Ctx, rng: &mut Rng, n: usize) {
    let api = format!("PrimeResidueClass<{}>", P);
    let p = P as i128;
    let mut specials: Vec<i64> = vec![0, 1, -1, P, -P, P - 1, 1 - P, P + 1, -P - 1, 2 * P, -2 * P, 7 * P, -7 * P, i64::MAX, i64::MIN + 1, i64::MIN];
    for _ in 0..n {
        specials.push(match rng.below(4) {
            0 => rng.range(-50, 50),
            1 => rng.range(-3, 3) * P,
            2 => rng.range(-1000, 1000) * P + rng.range(-3, 3),
            _ => rng.next_u64() as i64,
        });
    }
    // canonical representative
    for &x in &specials {
        ctx.eval();
        let r = observe(|| i64::from(PrimeResidueClass::<P>::from(x)));
        match r {
            Ok(v) => {
                let want = (x as i128).rem_euclid(p);
                if v as i128 != want {
                    ctx.violation("non-canonical-representative", &format!("{}::from(i64)", api), json!({"n": x.to_string()}), json!({"value": v.to_string(), "expected": want.to_string()}), "representative in [0,P) for every integer input");
                }
                if x < 0 || x >= P {
                    ctx.nontrivial(digest(&("res", P, x)));
                }
            }
            Err(pn) => {
                // i64::MIN % P cannot overflow; any panic is a violation
                ctx.violation(&format!("panic@{}", pn.short_loc()), &format!("{}::from(i64)", api), json!({"n": x.to_string()}), pn.to_json(), "no panic");
            }
        }
        if x >= i32::MIN as i64 && x <= i32::MAX as i64 {
            if let Ok(v) = observe(|| i64::from(PrimeResidueClass::<P>::from(x as i32))) {
                if v as i128 != (x as i128).rem_euclid(p) {
                    ctx.violation("non-canonical-representative", &format!("{}::from(i32)", api), json!({"n": x.to_string()}), json!({"value": v.to_string()}), "representative in [0,P)");
                }
            }
        }
    }
    // field axioms on pairs
    for k in 0..specials.len() {
        let x = specials[k];
        let y = specials[(k * 7 + 3) % specials.len()];
        let (xm, ym) = ((x as i128).rem_euclid(p), (y as i128).rem_euclid(p));
        ctx.eval();
        let r = observe(|| {
            let a = PrimeResidueClass::<P>::from(x);
            let b = PrimeResidueClass::<P>::from(y);
            let eq = a == b;
            let sum = i64::from(a + b);
            let dif = i64::from(a - b);
            let prd = i64::from(a * b);
            let neg = i64::from(-a);
            let quo = if ym != 0 { Some((i64::from(a / b), i64::from((a / b) * b))) } else { None };
            let rsum = i64::from(&a + &b);
            let rprd = i64::from(&a * &b);
            let z = a.is_zero();
            let o = a.is_one();
            (eq, sum, dif, prd, neg, quo, rsum, rprd, z, o)
        });
        let inp = || json!({"a": x.to_string(), "b": y.to_string()});
        match r {
            Ok((eq, sum, dif, prd, neg, quo, rsum, rprd, z, o)) => {
                let mut bad: Vec<(&str, String)> = vec![];
                if eq != (xm == ym) {
                    bad.push(("equality-iff-congruent", format!("{}", eq)));
                }
                if sum as i128 != (xm + ym) % p || rsum as i128 != (xm + ym) % p {
                    bad.push(("addition", sum.to_string()));
                }
                if dif as i128 != (xm - ym).rem_euclid(p) {
                    bad.push(("subtraction", dif.to_string()));
                }
                if prd as i128 != (xm * ym) % p || rprd as i128 != (xm * ym) % p {
                    bad.push(("multiplication", prd.to_string()));
                }
                if neg as i128 != (-xm).rem_euclid(p) {
                    bad.push(("negation", neg.to_string()));
                }
                if let Some((qv, back)) = quo {
                    let want = xm * linalg::inv_mod(ym, p) % p;
                    if qv as i128 != want || back as i128 != xm {
                        bad.push(("division", qv.to_string()));
                    }
                }
                if z != (xm == 0) {
                    bad.push(("is_zero", z.to_string()));
                }
                if o != (xm == 1 % p) {
                    bad.push(("is_one", o.to_string()));
                }
                for (c, o) in bad {
                    ctx.violation(&format!("field-{}", c), &api, inp(), json!(o), "Z/p arithmetic on canonical representatives");
                }
            }
            Err(pn) => ctx.violation(&format!("panic@{}", pn.short_loc()), &api, inp(), pn.to_json(), "no panic"),
        }
    }
    ctx.count("residue_rounds");
}

// ---------------------------------------------------------------------------
// modular solver

fn modular(ctx: &mut Ctx, rng: &mut Rng, k: usize) {
    let mut n = 1 + rng.below(5);
    let mut bc = 1 + rng.below(3);
    let mag = *rng.pick(&[1i64, 9, 1000, 1_000_000, 1_000_000_000]);
    let mut a: Vec<Vec<i64>> = (0..n).map(|_| (0..n).map(|_| rng.range(-mag, mag)).collect()).collect();
    let style = k % 8;
    if style == 0 && n >= 2 {
        // singular over Q
        let r = rng.below(n);
        let s = (r + 1) % n;
        a[r] = a[s].clone();
    } else if style == 1 {
        // non-singular over Q but singular modulo the solver's prime
        let small: Vec<Vec<i64>> = (0..n).map(|i| (0..n).map(|j| if i == j { 1 } else if j > i { rng.range(-2, 2) } else { 0 }).collect()).collect();
        a = small;
        let r = rng.below(n);
        for j in 0..n {
            a[r][j] *= BIG_PRIME;
        }
    }
    let mut b: Vec<Vec<i64>> = (0..n).map(|_| (0..bc).map(|_| if rng.chance(1, 8) { 0 } else { rng.range(-mag, mag) }).collect()).collect();
    if style == 2 || style == 3 {
        // solutions whose p-adic expansion has vanishing digits: A unimodular (or with determinant p + 1),
        // right-hand side a multiple of the prime
        a = (0..n).map(|i| (0..n).map(|j| if i == j { 1 } else { 0 }).collect()).collect();
        for _ in 0..(2 * n) {
            let (i, j) = (rng.below(n), rng.below(n));
            if i != j {
                let f = rng.range(-2, 2);
                for c in 0..n {
                    a[i][c] += f * a[j][c];
                }
            }
        }
        if style == 3 {
            let r = rng.below(n);
            for c in 0..n {
                a[r][c] *= if rng.chance(1, 2) { BIG_PRIME + 1 } else { BIG_PRIME - 1 };
            }
            b = (0..n).map(|_| (0..bc).map(|_| rng.range(-3, 3)).collect()).collect();
        } else {
            b = (0..n).map(|_| (0..bc).map(|_| BIG_PRIME * rng.range(-1000, 1000) * if rng.chance(1, 3) { 1_000_000 } else { 1 }).collect()).collect();
        }
        ctx.count("modsolve.vanishing_digit_family");
    }
    if style == 4 || style == 5 {
        // solutions that sit (almost) on the Hadamard bound, at magnitudes swept log-uniformly so that some
        // power of the prime falls just above the bound: numerator and denominator of the solution are as
        // large as the lifting is dimensioned for (1x1: c/a with |c| ~ |a|; 2x2: rotation-dilation with a
        // right-hand side nearly parallel to a column)
        let m = 2f64.powf(rng.below(3000) as f64 / 100.0) as i64 + 2;
        let near = |rng: &mut Rng| -> i64 {
            let v = rng.range(((m as f64 / 1.3) as i64).max(1), m);
            if rng.chance(1, 2) { v } else { -v }
        };
        bc = 1;
        if style == 4 {
            n = 1;
            a = vec![vec![near(rng)]];
            b = vec![vec![near(rng)]];
        } else {
            n = 2;
            let (x, y) = (near(rng), near(rng));
            a = vec![vec![x, y], vec![-y, x]];
            let e = if rng.chance(1, 2) { 1 } else { -1 };
            b = if rng.chance(1, 2) { vec![vec![x - e], vec![-y]] } else { vec![vec![y], vec![x - e]] };
        }
        ctx.count("modsolve.near_hadamard_bound_family");
    }
    let input = || json!({"a": a.iter().map(|r| r.iter().map(|x| x.to_string()).collect::<Vec<_>>()).collect::<Vec<_>>(), "b": b.iter().map(|r| r.iter().map(|x| x.to_string()).collect::<Vec<_>>()).collect::<Vec<_>>()});
    let am: VecMatrix<i64> = to_vm(&a, n);
    let bm: VecMatrix<i64> = to_vm(&b, bc);
    ctx.eval();
    let r = observe(|| modular_solver::solve(&am, &bm));
    let got = match ctx.no_panic("modular_solver::solve", input, r) {
        Some(g) => g,
        None => return,
    };
    let ai = i128mat(&a);
    let det_mod = linalg::det_mod(&ai, BIG_PRIME as i128);
    let aq = linalg::qmat(&a);
    let bq = linalg::qmat(&b);
    match got {
        Some(x) => {
            ctx.count("modsolve.some");
            if det_mod == 0 {
                ctx.violation("solution-for-system-singular-mod-p", "modular_solver::solve", input(), json!("Some"), "None when the matrix is singular modulo the prime");
                return;
            }
            let want = linalg::solve_unique(&aq, &bq).unwrap();
            let xq = read_q::<BigRational, _>(&x);
            if xq != want {
                ctx.violation("not-the-rational-solution", "modular_solver::solve", input(), json!({"got": qmat_json(&xq), "expected": qmat_json(&want)}), "exactly the rational solution");
            }
            if mag >= 1000 {
                ctx.nontrivial(digest(&("mod", &a, &b)));
            }
        }
        None => {
            ctx.count("modsolve.none");
            if det_mod != 0 {
                ctx.violation("no-solution-for-non-singular-system", "modular_solver::solve", input(), json!("None"), "a solution for every system that is non-singular modulo the prime");
            }
            if style == 1 {
                ctx.count("modsolve.singular_mod_p_only");
            }
        }
    }
}

// ---------------------------------------------------------------------------
// periodic graphs

pub struct PgCase {
    pub dim: usize,
    pub edges: Vec<(usize, usize, Vec<i64>)>,
}

pub fn random_pgraph(rng: &mut Rng) -> PgCase {
    let dim = 2 + rng.below(2);
    let nv = 1 + rng.below(8);
    let label = |k: usize| 1 + 3 * k; // non-contiguous vertex names
    let mut edges: Vec<(usize, usize, Vec<i64>)> = vec![];
    let shift = |rng: &mut Rng| -> Vec<i64> { (0..dim).map(|_| rng.range(-1, 1)).collect() };
    // spanning tree for connectivity
    for v in 1..nv {
        let u = rng.below(v);
        edges.push((label(u), label(v), shift(rng)));
    }
    // extra edges, including loops with positive shifts and parallel edges with different shifts
    for _ in 0..(dim + rng.below(2 * nv + 2)) {
        let u = rng.below(nv);
        let v = rng.below(nv);
        let (u, v) = (u.min(v), u.max(v));
        let mut s = shift(rng);
        if u == v {
            // loops: make the shift non-zero with all components >= 0 (canonical direction)
            s = s.iter().map(|x| x.abs()).collect();
            if s.iter().all(|&x| x == 0) {
                s[0] = 1;
            }
        }
        if !edges.iter().any(|e| e.0 == label(u) && e.1 == label(v) && e.2 == s) {
            edges.push((label(u), label(v), s));
        }
    }
    PgCase { dim, edges }
}

pub fn judge_pgraph(ctx: &mut Ctx, c: &PgCase) {
    let input = || json!({"dim": c.dim, "edges": c.edges});
    let make = || {
        let es: Vec<VectorLabelledEdge> = c
            .edges
            .iter()
            .map(|(h, t, s)| {
                let mut m = VecMatrix::<i64>::new(c.dim, 1);
                for i in 0..c.dim {
                    m[i][0] = s[i];
                }
                VectorLabelledEdge::make(*h, *t, m)
            })
            .collect();
        PeriodicGraph::from(es)
    };
    ctx.eval();
    let r = observe(|| {
        let g = make();
        let verts = g.vertices().clone();
        // first pass fills the cache through &self, second pass must read identical values
        let p1: Vec<QMat> = verts.iter().map(|&v| read_q::<BigRational, _>(&g.position(v))).collect();
        let p2: Vec<QMat> = verts.iter().rev().map(|&v| read_q::<BigRational, _>(&g.position(v))).collect();
        (verts, p1, p2)
    });
    let (verts, p1, mut p2) = match ctx.no_panic("PeriodicGraph::position", input, r) {
        Some(x) => x,
        None => return,
    };
    p2.reverse();
    if p1 != p2 {
        ctx.violation("cached-position-differs", "PeriodicGraph::position", input(), json!("second read differs from first"), "position is a function of the graph");
    }
    let pos = |v: usize| -> &QMat { &p1[verts.iter().position(|&x| x == v).unwrap()] };
    for &v in &verts {
        let mut sum: Vec<Q> = vec![Q::zero(); c.dim];
        for (h, t, s) in &c.edges {
            if *h == v {
                for i in 0..c.dim {
                    sum[i] += &pos(*t)[i][0] + q(s[i]) - &pos(v)[i][0];
                }
            }
            if *t == v {
                for i in 0..c.dim {
                    sum[i] += &pos(*h)[i][0] - q(s[i]) - &pos(v)[i][0];
                }
            }
        }
        if sum.iter().any(|x| !x.is_zero()) {
            ctx.violation(
                "barycentric-equation",
                "PeriodicGraph::position",
                input(),
                json!({"vertex": v, "residual": sum.iter().map(|x| x.to_string()).collect::<Vec<_>>()}),
                "every vertex is the barycentre of its neighbours (with shifts)",
            );
            break;
        }
    }
    if verts.len() >= 3 {
        ctx.nontrivial(digest(&("pg", &c.edges)));
    }
    ctx.count("periodic_graphs");
}

// ---------------------------------------------------------------------------

pub fn run(cfg: &Cfg) -> Report {
    let mut report = Report::new(cfg);
    // abandoned calls between judged cases: division by the zero class, a product of mismatched shapes
    crate::monitor::set_poison(|k| match k % 3 {
        0 => {
            let _ = PrimeResidueClass::<7>::from(3) / PrimeResidueClass::<7>::from(0);
        }
        1 => {
            let a = VecMatrix::<i64>::new(2, 3);
            let b = VecMatrix::<i64>::new(2, 3);
            let _ = &a * &b;
        }
        _ => {
            let _ = PrimeResidueClass::<11>::from(5) / PrimeResidueClass::<11>::from(-22);
        }
    });
    let seed = cfg.seed;
    let release = cfg.lane == "release";

    // (A) every shape 1..6 x 1..6, several magnitude classes, all backends
    let per_shape = cfg.tier.pick(2_500, 60_000);
    let ctx = par_range(cfg, 36 * per_shape, |ctx, k| {
        let shape = k % 36;
        let (nr, nc) = (1 + shape / 6, 1 + shape % 6);
        let mut rng = Rng::stream(seed, 0x18_0000_0000 + k as u64);
        let mag = *rng.pick(&[1i64, 1, 9, 9, 9, 10_000, 1_000_000_000]);
        let c = random_case(&mut rng, nr, nc, mag, 3);
        run_case_all_backends(ctx, &c, digest(&("la", seed, k)), release, k / 36);
        ctx.count(&format!("shape.{}x{}", nr, nc));
        if k < 36 && k % 7 == 0 {
            ctx.sample(|| json!({"a": c.a, "b": c.b}));
        }
    });
    report.absorb(ctx);

    // (A'') a few larger and extreme shapes (up to 9 rows / columns)
    let extra_shapes: Vec<(usize, usize)> = vec![(7, 7), (8, 8), (1, 9), (9, 1), (2, 8), (8, 2), (7, 5), (5, 7), (9, 9)];
    let ctx = par_range(cfg, extra_shapes.len() * cfg.tier.pick(40, 1500), |ctx, k| {
        let (nr, nc) = extra_shapes[k % extra_shapes.len()];
        let mut rng = Rng::stream(seed, 0x18_2000_0000 + k as u64);
        let mag = *rng.pick(&[1i64, 1, 2, 9]);
        let c = random_case(&mut rng, nr, nc, mag, 2);
        run_case_all_backends(ctx, &c, digest(&("lax", seed, k)), release, k);
        ctx.count("extra_shapes");
    });
    report.absorb(ctx);

    // (A') exhaustive tiny universe: all matrices with entries in {-1,0,1} of shapes up to 2x3 / 3x2
    for (nr, nc) in [(1usize, 1usize), (1, 2), (2, 1), (2, 2), (2, 3), (3, 2), (1, 3), (3, 1)] {
        let cells = nr * nc;
        let total = 3usize.pow(cells as u32);
        let ctx = par_range(cfg, total * 3, |ctx, k| {
            let mut x = k / 3;
            let mut a = vec![vec![0i64; nc]; nr];
            for c in 0..cells {
                a[c / nc][c % nc] = (x % 3) as i64 - 1;
                x /= 3;
            }
            let b: Vec<Vec<i64>> = (0..nr).map(|i| vec![[1, 0, -1][(k + i) % 3]]).collect();
            let c = Case { a, ncols: nc, b, bcols: 1 };
            run_case_all_backends(ctx, &c, digest(&("ex", nr, nc, k)), release, k);
            ctx.count("exhaustive_tiny");
        });
        report.absorb(ctx);
    }

    // (B) residue classes
    let ctx = par_range(cfg, cfg.tier.pick(64, 1600), |ctx, k| {
        let mut rng = Rng::stream(seed, 0x18_4000_0000 + k as u64);
        residues::<2>(ctx, &mut rng, 60);
        residues::<3>(ctx, &mut rng, 60);
        residues::<7>(ctx, &mut rng, 60);
        residues::<101>(ctx, &mut rng, 60);
        residues::<65537>(ctx, &mut rng, 60);
        residues::<BIG_PRIME>(ctx, &mut rng, 60);
    });
    report.absorb(ctx);

    // (C) modular solver
    let nmod = cfg.tier.pick(40_000, 4_000_000);
    let ctx = par_range(cfg, nmod, |ctx, k| {
        let mut rng = Rng::stream(seed, 0x18_8000_0000 + k as u64);
        modular(ctx, &mut rng, k);
    });
    report.absorb(ctx);

    // (D) periodic graphs
    let npg = cfg.tier.pick(8_000, 200_000);
    let ctx = par_range(cfg, npg, |ctx, k| {
        let mut rng = Rng::stream(seed, 0x18_c000_0000 + k as u64);
        let c = random_pgraph(&mut rng);
        judge_pgraph(ctx, &c);
    });
    report.absorb(ctx);

    report.rule = "matrices of every shape 1..6 x 1..6 (wide, tall, square) with entry classes {-1,0,1}, [-9,9], +-10^4, +-10^9, rank profiles forced by construction (products of thin factors, unimodular products of elementary matrices, staircases with leading zero columns), consistent and inconsistent multi-column right-hand sides; every case through VecMatrix<BigRational>, one VecMatrix<PrimeResidueClass<P>> (P cycling over 2,3,7,101,65537,3037000493), VecMatrix<i64> for magnitudes <= 10^4, and the const-generic Matrix<_,N,M> twins for N,M <= 4; all {-1,0,1} matrices of the tiny shapes; residue-class arithmetic on special and random integers; modular solver on square systems incl. singular and singular-mod-p-only ones; barycentric placement of random connected periodic graphs. Non-trivial = rank-deficient or non-square or with a negative entry (matrices), input outside [0,P) (residues), magnitude >= 1000 (modular solver), >= 3 vertices (graphs); distinct = distinct (case, backend) digests".into();
    report.explanation = "oracle: own BigRational Gaussian elimination / Leibniz determinant and u128 arithmetic mod p; every returned null-space, solution and inverse is multiplied back exactly".into();
    report.note("exhaustive_subuniverses", json!(["all matrices with entries in {-1,0,1} of shapes 1x1,1x2,2x1,2x2,2x3,3x2,1x3,3x1 with three right-hand sides"]));
    report.assume("i64 backend: arithmetic-overflow panics on inputs beyond 3x3 with |entries| <= 9 are counted out_of_domain (magnitude, not shape); completeness of integer solve/inverse is demanded only for unimodular matrices");
    if release {
        report.assume("release lane: i64 backend judged only where overflow is impossible (wrapping arithmetic cannot be observed as a panic)");
    }
    for nr in 1..=6 {
        for nc in 1..=6 {
            report.require_counter(&format!("shape.{}x{}", nr, nc), (per_shape / 2) as u64);
        }
    }
    report.require_counter("systems.consistent", 1000);
    report.require_counter("systems.inconsistent", 1000);
    report.require_counter("modsolve.some", (nmod / 4) as u64);
    report.require_counter("modsolve.singular_mod_p_only", 10);
    report.require_counter("modsolve.vanishing_digit_family", 100);
    report.require_counter("modsolve.near_hadamard_bound_family", 1000);
    report.require_counter("periodic_graphs", (npg / 2) as u64);
    report.require_counter("cases.Matrix<BigRational,N,M>", 100);
    report.require_counter("cases.Matrix<i64,N,M>", 100);
    // more than one p-adic lifting step per call on average
    let (steps, calls) = (report.ctx.hook("modsolve.steps"), report.ctx.hook("modsolve.calls"));
    report.require("hook:modsolve.steps exceeds modsolve.calls (multi-step lifting exercised)", (steps > calls) as u64, 1);
    report
}

pub fn replay(ctx: &mut Ctx, input: &Value, release: bool) -> bool {
    let mat = |v: &Value| -> Option<Vec<Vec<i64>>> {
        v.as_array()?.iter().map(|r| r.as_array().map(|l| l.iter().filter_map(|x| x.as_i64().or_else(|| x.as_str().and_then(|s| s.parse().ok()))).collect())).collect()
    };
    if let (Some(a), Some(nc), Some(b), Some(bc)) = (
        input.get("a").and_then(mat),
        input.get("nr_columns").and_then(|x| x.as_u64()),
        input.get("b").and_then(mat),
        input.get("b_columns").and_then(|x| x.as_u64()),
    ) {
        let c = Case { a, ncols: nc as usize, b, bcols: bc as usize };
        for w in 0..6 {
            run_case_all_backends(ctx, &c, 0, release, w);
        }
        // keep only violations for the backend named in the file
        if let Some(be) = input.get("backend").and_then(|x| x.as_str()) {
            ctx.violations.retain(|v| v.api.starts_with(be));
            ctx.violation_count = ctx.violations.len() as u64;
        }
        return true;
    }
    if let (Some(dim), Some(edges)) = (input.get("dim").and_then(|x| x.as_u64()), input.get("edges").and_then(|x| x.as_array())) {
        let edges: Vec<(usize, usize, Vec<i64>)> = edges
            .iter()
            .filter_map(|e| Some((e.get(0)?.as_u64()? as usize, e.get(1)?.as_u64()? as usize, e.get(2)?.as_array()?.iter().filter_map(|x| x.as_i64()).collect())))
            .collect();
        judge_pgraph(ctx, &PgCase { dim: dim as usize, edges });
        return true;
    }
    false
}
