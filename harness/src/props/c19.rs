//! C19 — minimum cuts separate source from sink and have minimum size.

use crate::monitor::{digest, observe, par_range, Cfg, Ctx, Report};
use crate::oracle::graphs::{self, Edge};
use crate::rng::Rng;
use crate::shapes;
use rust_dsymbols::util::cutsets::{min_edge_cut, min_edge_cut_undirected, min_vertex_cut, min_vertex_cut_undirected};
use serde_json::{json, Value};
use std::collections::BTreeSet;

#[derive(Clone, Copy, Debug, PartialEq, Eq)]
pub enum Kind {
    EdgeDirected,
    EdgeUndirected,
    VertexDirected,
    VertexUndirected,
}

impl Kind {
    fn name(&self) -> &'static str {
        match self {
            Kind::EdgeDirected => "min_edge_cut",
            Kind::EdgeUndirected => "min_edge_cut_undirected",
            Kind::VertexDirected => "min_vertex_cut",
            Kind::VertexUndirected => "min_vertex_cut_undirected",
        }
    }
    fn from_name(s: &str) -> Option<Kind> {
        Some(match s {
            "min_edge_cut" => Kind::EdgeDirected,
            "min_edge_cut_undirected" => Kind::EdgeUndirected,
            "min_vertex_cut" => Kind::VertexDirected,
            "min_vertex_cut_undirected" => Kind::VertexUndirected,
            _ => return None,
        })
    }
    fn undirected(&self) -> bool {
        matches!(self, Kind::EdgeUndirected | Kind::VertexUndirected)
    }
    fn vertex(&self) -> bool {
        matches!(self, Kind::VertexDirected | Kind::VertexUndirected)
    }
}

fn has_no_repeats<T: Ord + Clone>(v: &[T]) -> bool {
    v.iter().cloned().collect::<BTreeSet<_>>().len() == v.len()
}

/// Judges one call. `big` selects max-flow instead of subset enumeration for the minimum.
pub fn judge(ctx: &mut Ctx, kind: Kind, edges: &[Edge], source: usize, sink: usize, big: bool, origin: &str) -> bool {
    let input = || json!({"api": kind.name(), "edges": edges, "source": source, "sink": sink, "origin": origin});
    // effective directed edge set
    let mut eff: Vec<Edge> = edges.iter().cloned().collect();
    if kind.undirected() {
        eff.extend(edges.iter().map(|&(v, w)| (w, v)));
    }
    let eff: Vec<Edge> = eff.into_iter().collect::<BTreeSet<_>>().into_iter().collect();
    let verts: BTreeSet<usize> = eff.iter().flat_map(|&(v, w)| [v, w]).collect();
    // domain: distinct terminals, both incident to an edge, simple graph (no self loops),
    // and for vertex cuts no source->sink edge
    // domain: distinct terminals, simple graph (no self loops). A terminal that occurs in no edge is an isolated
    // vertex of the graph: the empty cut separates, and the reachable set is judged like any other.
    if source == sink || eff.iter().any(|&(v, w)| v == w) {
        ctx.out_of_domain("terminal-or-loop");
        return false;
    }
    if !verts.contains(&source) || !verts.contains(&sink) {
        ctx.count("queries_with_an_isolated_terminal");
    }
    if kind.vertex() && eff.contains(&(source, sink)) {
        ctx.out_of_domain("source-sink-edge");
        // executed for observation only
        let e = edges.to_vec();
        let _ = observe(|| match kind {
            Kind::VertexDirected => min_vertex_cut(e, source, sink).cut_vertices.len(),
            _ => min_vertex_cut_undirected(e, source, sink).cut_vertices.len(),
        });
        return false;
    }
    ctx.eval();
    // the edge list is handed over in one of several iterator forms (a function of the query, so that a replay
    // makes the same call): the answer must not depend on it
    let shape = (digest(&(edges, source, sink)) % shapes::INPUT_SHAPES as u64) as usize;
    ctx.count(&format!("input_shape.{}", shapes::input_shape_name(shape)));
    let e = shapes::shaped(edges, shape);
    // bounded progress: a cut query on a graph of this size takes microseconds; 30 s of CPU time is the budget
    let _in_flight = if edges.len() <= 5000 { Some(crate::monitor::in_flight(kind.name(), 30, || input().to_string())) } else { None };
    if !kind.vertex() {
        let r = observe(|| match kind {
            Kind::EdgeDirected => min_edge_cut(e, source, sink),
            _ => min_edge_cut_undirected(e, source, sink),
        });
        let cut = match ctx.no_panic(kind.name(), input, r) {
            Some(c) => c,
            None => return true,
        };
        let ce = cut.cut_edges.clone();
        let mut bad: Vec<(&str, Value)> = vec![];
        if !has_no_repeats(&ce) {
            bad.push(("repeated-cut-element", json!(ce)));
        }
        if ce.iter().any(|e| !eff.contains(e)) {
            bad.push(("cut-element-not-an-edge", json!(ce)));
        }
        let removed: BTreeSet<Edge> = ce.iter().cloned().collect();
        let reach = graphs::reachable(&eff, source, &removed, &BTreeSet::new());
        if reach.contains(&sink) {
            bad.push(("cut-does-not-separate", json!({"cut": ce})));
        }
        let min = if big { graphs::max_flow_unit(&eff, source, sink) } else { graphs::min_edge_cut_size_bf(&eff, source, sink) };
        if removed.len() != min {
            bad.push(("cut-not-minimum", json!({"cut": ce, "minimum_size": min})));
        }
        let mut inside: BTreeSet<usize> = cut.inside_vertices.iter().cloned().collect();
        if !has_no_repeats(&cut.inside_vertices) {
            bad.push(("repeated-inside-vertex", json!(cut.inside_vertices)));
        }
        inside.insert(source);
        if inside != reach {
            bad.push(("inside-vertices-not-the-reachable-set", json!({"inside": cut.inside_vertices, "reachable_after_removal": reach, "cut": ce})));
        }
        for (c, o) in bad {
            ctx.violation(c, kind.name(), input(), o, "cut separates, is minimum, has no repeats; inside + source = reachable set");
        }
        let sdeg = eff.iter().filter(|e| e.0 == source).count();
        let tdeg = eff.iter().filter(|e| e.1 == sink).count();
        min >= 2 && min != sdeg && min != tdeg
    } else {
        let r = observe(|| match kind {
            Kind::VertexDirected => min_vertex_cut(e, source, sink),
            _ => min_vertex_cut_undirected(e, source, sink),
        });
        let cut = match ctx.no_panic(kind.name(), input, r) {
            Some(c) => c,
            None => return true,
        };
        let cv = cut.cut_vertices.clone();
        let mut bad: Vec<(&str, Value)> = vec![];
        if !has_no_repeats(&cv) {
            bad.push(("repeated-cut-element", json!(cv)));
        }
        if cv.contains(&source) || cv.contains(&sink) {
            bad.push(("cut-contains-terminal", json!(cv)));
        }
        if cv.iter().any(|v| !verts.contains(v)) {
            bad.push(("cut-element-not-a-vertex", json!(cv)));
        }
        let removed: BTreeSet<usize> = cv.iter().cloned().filter(|&v| v != source && v != sink).collect();
        let reach = graphs::reachable(&eff, source, &BTreeSet::new(), &removed);
        if reach.contains(&sink) {
            bad.push(("cut-does-not-separate", json!({"cut": cv})));
        }
        let min = if big { graphs::min_vertex_cut_size_flow(&eff, source, sink).unwrap() } else { graphs::min_vertex_cut_size_bf(&eff, source, sink).unwrap() };
        if cv.iter().cloned().collect::<BTreeSet<_>>().len() != min {
            bad.push(("cut-not-minimum", json!({"cut": cv, "minimum_size": min})));
        }
        if !has_no_repeats(&cut.inside_vertices) {
            bad.push(("repeated-inside-vertex", json!(cut.inside_vertices)));
        }
        let mut inside: BTreeSet<usize> = cut.inside_vertices.iter().cloned().collect();
        inside.insert(source);
        if inside != reach {
            bad.push(("inside-vertices-not-the-reachable-set", json!({"inside": cut.inside_vertices, "reachable_after_removal": reach, "cut": cv})));
        }
        for (c, o) in bad {
            ctx.violation(c, kind.name(), input(), o, "cut separates, is minimum, excludes terminals, has no repeats; inside + source = reachable set");
        }
        let sdeg = eff.iter().filter(|e| e.0 == source).count();
        let tdeg = eff.iter().filter(|e| e.1 == sink).count();
        min >= 2 && min != sdeg && min != tdeg
    }
}

const KINDS: [Kind; 4] = [Kind::EdgeDirected, Kind::EdgeUndirected, Kind::VertexDirected, Kind::VertexUndirected];

pub fn run(cfg: &Cfg) -> Report {
    let mut report = Report::new(cfg);
    // abandoned / out-of-domain calls between judged cases: an edge iterator that gives up half way, a query
    // whose sink does not occur in the graph
    crate::monitor::set_poison(|k| {
        let edges: Vec<Edge> = vec![(0, 1), (1, 2), (0, 3), (3, 2), (1, 3), (2, 4)];
        match k % 4 {
            0 => { let _ = min_edge_cut(shapes::panicking(&edges, 1 + (k as usize / 4) % 5), 0, 4); }
            1 => { let _ = min_vertex_cut_undirected(shapes::panicking(&edges, 2 + (k as usize / 4) % 4), 0, 4); }
            2 => { let _ = min_edge_cut_undirected(shapes::panicking(&edges, 3), 2, 4); }
            _ => { let _ = min_vertex_cut(edges.clone(), 0, 9); }
        }
    });
    let seed = cfg.seed;

    // (A) all simple digraphs on nv labelled vertices x all ordered terminal pairs
    let nv = cfg.tier.pick(4, 5);
    let pairs: Vec<Edge> = (0..nv).flat_map(|v| (0..nv).filter(move |&w| w != v).map(move |w| (v, w))).collect();
    let total = 1usize << pairs.len();
    // thorough on 5 vertices: 2^20 graphs; terminals fixed to (0,1) and (1,0) plus a rotating
    // pair (all labelled graphs are enumerated, so fixing the pair loses no isomorphism type)
    let ctx = par_range(cfg, total, |ctx, g| {
        let edges: Vec<Edge> = (0..pairs.len()).filter(|&b| g >> b & 1 == 1).map(|b| pairs[b]).collect();
        if edges.is_empty() {
            return;
        }
        let term: Vec<(usize, usize)> = if nv <= 4 {
            pairs.clone()
        } else {
            vec![(0, 1), (1, 0), pairs[g % pairs.len()]]
        };
        for &(s, t) in &term {
            for kind in KINDS {
                if kind.undirected() {
                    // undirected inputs: use each unordered pair once (v < w orientation only)
                    if edges.iter().any(|&(v, w)| v > w) {
                        continue;
                    }
                }
                if judge(ctx, kind, &edges, s, t, false, "exhaustive") {
                    ctx.nontrivial(digest(&("ex", kind.name(), g, s, t)));
                }
            }
        }
        ctx.count("exhaustive_graphs");
    });
    report.absorb(ctx);

    // (B) random graphs up to 9 vertices / 16 edges
    let nrand = cfg.tier.pick(1_000_000, 16_000_000);
    let ctx = par_range(cfg, nrand, |ctx, k| {
        let mut rng = Rng::stream(seed, 0x19_0000_0000 + k as u64);
        let n = 4 + rng.below(6);
        let m = 3 + rng.below(14);
        let offset = if rng.chance(1, 4) { rng.below(50) } else { 0 };
        // sparse, non-contiguous vertex names in a third of the cases
        let stretch = if rng.chance(1, 3) { 2 + rng.below(7) } else { 1 };
        let mut edges: Vec<Edge> = vec![];
        for _ in 0..m {
            let v = rng.below(n);
            let mut w = rng.below(n);
            if w == v {
                w = (v + 1) % n;
            }
            edges.push((v * stretch + offset, w * stretch + offset));
        }
        if rng.chance(1, 3) {
            // duplicates in the input are legitimate (the API takes an iterator of pairs)
            let e = edges[rng.below(edges.len())];
            edges.push(e);
        }
        let s = edges[rng.below(edges.len())].0;
        let mut t = edges[rng.below(edges.len())].1;
        if t == s {
            t = edges.iter().flat_map(|&(v, w)| [v, w]).find(|&x| x != s).unwrap();
        }
        let kind = KINDS[k % 4];
        // a terminal that occurs in no edge (isolated vertex)
        let (s, t) = if rng.chance(1, 12) {
            let fresh = edges.iter().flat_map(|&(v, w)| [v, w]).max().unwrap() + 1 + rng.below(3);
            if rng.chance(1, 2) { (s, fresh) } else { (fresh, t) }
        } else {
            (s, t)
        };
        // extreme vertex names (edge cuts only: a vertex cut splits every vertex into two names, so names close
        // to usize::MAX are not representable there): a name must be nothing but a name
        let (edges, s, t) = if !kind.vertex() && rng.chance(1, 5) {
            let names: Vec<usize> = edges.iter().flat_map(|&(v, w)| [v, w]).collect::<BTreeSet<_>>().into_iter().collect();
            let victim = names[rng.below(names.len())];
            let extreme = *rng.pick(&[usize::MAX, usize::MAX, usize::MAX - 1, 1usize << 63, (1usize << 32) + 1]);
            if names.contains(&extreme) {
                (edges, s, t)
            } else {
                ctx.count("random_graphs_with_an_extreme_vertex_name");
                let f = |x: usize| if x == victim { extreme } else { x };
                (edges.iter().map(|&(v, w)| (f(v), f(w))).collect::<Vec<Edge>>(), f(s), f(t))
            }
        } else {
            (edges, s, t)
        };
        if judge(ctx, kind, &edges, s, t, false, "random") {
            ctx.nontrivial(digest(&("rnd", seed, k)));
        }
        ctx.count("random_graphs");
        if k < 4 {
            ctx.sample(|| json!({"api": kind.name(), "edges": edges, "source": s, "sink": t}));
        }
    });
    report.absorb(ctx);

    // (C) grid / layered networks with larger cuts, judged by max-flow
    let nbig = cfg.tier.pick(12_000, 250_000);
    let ctx = par_range(cfg, nbig, |ctx, k| {
        let mut rng = Rng::stream(seed, 0x19_8000_0000 + k as u64);
        let layers = 2 + rng.below(4);
        let width = 2 + rng.below(5);
        let id = |l: usize, x: usize| 2 + l * width + x;
        let mut edges: Vec<Edge> = vec![];
        for x in 0..width {
            edges.push((0, id(0, x)));
            edges.push((id(layers - 1, x), 1));
        }
        for l in 0..(layers - 1) {
            for x in 0..width {
                for y in 0..width {
                    if rng.chance(2, 5) {
                        edges.push((id(l, x), id(l + 1, y)));
                    }
                    if rng.chance(1, 10) {
                        edges.push((id(l + 1, y), id(l, x)));
                    }
                }
            }
        }
        let kind = KINDS[k % 4];
        if judge(ctx, kind, &edges, 0, 1, true, "layered") {
            ctx.nontrivial(digest(&("big", seed, k)));
        }
        ctx.count("layered_networks");
    });
    report.absorb(ctx);

    // (D) the networks that simplify's network_cut really builds (captured by the hook)
    let ctx = captured_networks(cfg);
    report.absorb(ctx);

    report.rule = format!("(A) every simple digraph on {} labelled vertices with every ordered terminal pair (5 vertices: terminal pairs (0,1),(1,0) and one rotating pair), through all four entry points (undirected ones on v<w orientations); (B) random graphs with 4-9 vertices, 3-17 edges, optional label offset and duplicate edges; (C) layered networks judged by an independent Edmonds-Karp; (D) networks captured from simplify::network_cut by the library hook. Non-trivial = minimum cut >= 2 and different from the out-degree of the source and the in-degree of the sink; distinct = distinct (graph, terminals, entry point) digests", nv);
    report.explanation = "separation and the reachable set checked by BFS after removing the returned cut; minimum size by enumerating subsets in increasing size (definition) or by max-flow for the larger networks".into();
    report.exhaustive = false;
    report.note("exhaustive_subuniverses", json!([format!("all simple digraphs on {} labelled vertices", nv)]));
    report.assume("domain: source != sink, both incident to an edge, no self loops, no source-sink edge for vertex cuts; other calls are executed and counted out_of_domain");
    report.require_counter("exhaustive_graphs", 1000);
    report.require_counter("random_graphs", (nrand / 2) as u64);
    report.require_counter("captured_simplify_networks", 10);
    report.require_hook("cutsets.flow_cancelled", 1);
    report.require_hook("cutsets.augmentation", 1000);
    report
}

/// Runs simplify on a few branch-free 3D sets with hook event recording on, and judges the
/// min_vertex_cut_undirected calls the real pipeline makes.
fn captured_networks(cfg: &Cfg) -> Ctx {
    use crate::bridge::to_partial_dsym;
    use rust_dsymbols::delaney3d::pseudo_toroidal_cover;
    use rust_dsymbols::simplify::simplify;
    use rust_dsymbols::verif_hooks::{drain, record_events, Event};
    let corpus = crate::gen::corpus();
    let n = cfg.tier.pick(6, corpus.len());
    par_range(cfg, n, |ctx, k| {
        let s = &corpus[k];
        let ds = to_partial_dsym(s);
        let cov = match observe(|| pseudo_toroidal_cover(&ds)) {
            Ok(Some(c)) => c,
            _ => return,
        };
        record_events(true);
        let _ = observe(|| simplify(&cov));
        let events = drain();
        record_events(false);
        let mut seen = BTreeSet::new();
        for ev in events {
            if let Event::VertexCut { edges, source, sink, cut, inside } = ev {
                if !seen.insert((edges.clone(), source, sink)) {
                    continue;
                }
                ctx.count("captured_simplify_networks");
                // judge the captured call by re-issuing it through the public entry point
                // (deterministic function of its arguments) and comparing with what the pipeline saw
                if judge(ctx, Kind::VertexUndirected, &edges, source, sink, true, "captured from simplify::network_cut") {
                    ctx.nontrivial(digest(&("cap", &edges, source, sink)));
                }
                let e2 = edges.clone();
                if let Ok(again) = observe(|| min_vertex_cut_undirected(e2, source, sink)) {
                    if again.cut_vertices != cut || again.inside_vertices != inside {
                        ctx.count("captured_call_not_reproducible");
                    }
                }
            }
        }
    })
}

pub fn replay(ctx: &mut Ctx, input: &Value) -> bool {
    let kind = match input.get("api").and_then(|x| x.as_str()).and_then(Kind::from_name) {
        Some(k) => k,
        None => return false,
    };
    let edges: Vec<Edge> = match input.get("edges").and_then(|x| x.as_array()) {
        Some(a) => a.iter().filter_map(|e| Some((e.get(0)?.as_u64()? as usize, e.get(1)?.as_u64()? as usize))).collect(),
        None => return false,
    };
    let s = input.get("source").and_then(|x| x.as_u64()).unwrap_or(0) as usize;
    let t = input.get("sink").and_then(|x| x.as_u64()).unwrap_or(0) as usize;
    let origin = input.get("origin").and_then(|x| x.as_str()).unwrap_or("");
    let big = edges.len() > 18;
    judge(ctx, kind, &edges, s, t, big, origin);
    true
}
