//! C20 — union-find partitions track exactly the unions performed.
//!
//! Events: histories of new / unite / find / classes / clone over several live instances.
//! Oracle: `QuickFind` (label array) per instance, in lock-step.

use crate::monitor::{digest, observe, par_range, Cfg, Ctx, Report};
use crate::oracle::quickfind::QuickFind;
use crate::rng::Rng;
use rust_dsymbols::util::partitions::{IntPartition, Partition};
use serde_json::{json, Value};

#[derive(Clone, Debug, PartialEq, Eq, Hash)]
pub enum Op {
    Unite(usize, usize, usize),   // instance, a, b
    Find(usize, usize),           // instance, a   (also checks representative stability)
    QueryAll(usize),              // full equivalence + representative check on the instance itself
    QueryClone(usize),            // equivalence check asked of a fresh clone (leaves forest untouched)
    Classes(usize, Vec<usize>),   // instance, list
    CloneTo(usize, usize),        // src, dst
    CloneFrom(usize, usize),      // src, dst: dst.clone_from(&src) into an instance that is already in use
}

impl Op {
    pub fn to_json(&self) -> Value {
        match self {
            Op::Unite(i, a, b) => json!(["unite", i, a, b]),
            Op::Find(i, a) => json!(["find", i, a]),
            Op::QueryAll(i) => json!(["query_all", i]),
            Op::QueryClone(i) => json!(["query_clone", i]),
            Op::Classes(i, l) => json!(["classes", i, l]),
            Op::CloneTo(s, d) => json!(["clone", s, d]),
            Op::CloneFrom(s, d) => json!(["clone_from", s, d]),
        }
    }
    pub fn from_json(v: &Value) -> Option<Op> {
        let a = v.as_array()?;
        let u = |k: usize| a.get(k).and_then(|x| x.as_u64()).map(|x| x as usize);
        Some(match a.get(0)?.as_str()? {
            "unite" => Op::Unite(u(1)?, u(2)?, u(3)?),
            "find" => Op::Find(u(1)?, u(2)?),
            "query_all" => Op::QueryAll(u(1)?),
            "query_clone" => Op::QueryClone(u(1)?),
            "classes" => Op::Classes(u(1)?, a.get(2)?.as_array()?.iter().filter_map(|x| x.as_u64()).map(|x| x as usize).collect()),
            "clone" => Op::CloneTo(u(1)?, u(2)?),
            "clone_from" => Op::CloneFrom(u(1)?, u(2)?),
            _ => return None,
        })
    }
}

/// The element types under test.
pub trait Elem: Clone + Eq + std::hash::Hash + std::fmt::Debug {
    fn make(k: usize) -> Self;
    /// inverse of `make`; usize::MAX for values that `make` never produces
    fn index(&self) -> usize;
}
impl Elem for usize {
    fn make(k: usize) -> Self {
        k
    }
    fn index(&self) -> usize {
        *self
    }
}
impl Elem for String {
    fn make(k: usize) -> Self {
        format!("element-{}", k)
    }
    fn index(&self) -> usize {
        self.strip_prefix("element-").and_then(|x| x.parse().ok()).unwrap_or(usize::MAX)
    }
}
impl Elem for (u8, u8) {
    fn make(k: usize) -> Self {
        ((k / 7) as u8, (k % 7) as u8)
    }
    fn index(&self) -> usize {
        if self.1 < 7 {
            self.0 as usize * 7 + self.1 as usize
        } else {
            usize::MAX
        }
    }
}

/// Abstracts over Partition<T> and IntPartition.
pub trait Uf: Clone {
    fn new_() -> Self;
    fn unite_(&mut self, a: usize, b: usize);
    fn find_(&self, a: usize) -> usize; // representative as universe index, usize::MAX if not a universe element
    fn classes_(&self, l: &[usize]) -> Vec<Vec<usize>>;
    /// `Clone::clone_from` of the wrapped library type (a type may override it)
    fn clone_from_(&mut self, src: &Self);
    fn kind() -> &'static str;
}

/// Element type whose Hash is (legitimately) coarser than its Eq: all elements with the same `bucket`
/// collide, so a partition that identified elements by hash alone would merge them.
#[derive(Clone, Debug, PartialEq, Eq)]
pub struct Coarse {
    bucket: u8,
    id: u16,
}
impl std::hash::Hash for Coarse {
    fn hash<H: std::hash::Hasher>(&self, state: &mut H) {
        self.bucket.hash(state);
    }
}
impl Elem for Coarse {
    fn make(k: usize) -> Self {
        Coarse { bucket: (k % 3) as u8, id: k as u16 }
    }
    fn index(&self) -> usize {
        if self.bucket as usize == self.id as usize % 3 {
            self.id as usize
        } else {
            usize::MAX
        }
    }
}

fn index_of<T: Elem>(x: &T) -> usize {
    x.index()
}

macro_rules! gen_uf {
    ($name:ident, $t:ty, $label:expr) => {
        #[derive(Clone)]
        pub struct $name(Partition<$t>);
        impl Uf for $name {
            fn new_() -> Self {
                $name(Partition::new())
            }
            fn unite_(&mut self, a: usize, b: usize) {
                self.0.unite(&<$t as Elem>::make(a), &<$t as Elem>::make(b));
            }
            fn find_(&self, a: usize) -> usize {
                let r = self.0.find(&<$t as Elem>::make(a));
                index_of::<$t>(&r)
            }
            fn classes_(&self, l: &[usize]) -> Vec<Vec<usize>> {
                let elems: Vec<$t> = l.iter().map(|&k| <$t as Elem>::make(k)).collect();
                self.0.classes(&elems).iter().map(|c| c.iter().map(|x| index_of::<$t>(x)).collect()).collect()
            }
            fn clone_from_(&mut self, src: &Self) {
                self.0.clone_from(&src.0);
            }
            fn kind() -> &'static str {
                $label
            }
        }
    };
}

gen_uf!(UfUsize, usize, "Partition<usize>");
gen_uf!(UfString, String, "Partition<String>");
gen_uf!(UfPair, (u8, u8), "Partition<(u8,u8)>");
gen_uf!(UfCoarse, Coarse, "Partition<Coarse (hash coarser than Eq)>");

#[derive(Clone)]
pub struct UfInt(IntPartition);
impl Uf for UfInt {
    fn new_() -> Self {
        UfInt(IntPartition::new())
    }
    fn unite_(&mut self, a: usize, b: usize) {
        self.0.unite(a, b);
    }
    fn find_(&self, a: usize) -> usize {
        self.0.find(a)
    }
    fn classes_(&self, l: &[usize]) -> Vec<Vec<usize>> {
        self.0.classes(l)
    }
    fn clone_from_(&mut self, src: &Self) {
        self.0.clone_from(&src.0);
    }
    fn kind() -> &'static str {
        "IntPartition"
    }
}

// ---------------------------------------------------------------------------------------------------
// Abandoned operations: an element type whose `Clone` can be made to give up (panic) once. The fuse is
// armed only for `find` of an element the instance has never seen, and only for the *first* clone the
// library makes in that call (before it has recorded anything about the element): the caller catches the
// panic and carries on with the same instance, which must behave as if the call had not been made.
thread_local! { static FUSE: std::cell::Cell<u32> = std::cell::Cell::new(0); }

#[derive(Debug, PartialEq, Eq, Hash)]
pub struct Fragile(u16);

impl Clone for Fragile {
    fn clone(&self) -> Self {
        FUSE.with(|f| {
            let v = f.get();
            if v > 0 {
                f.set(v - 1);
                if v == 1 {
                    panic!("vharness: Clone gives up (deliberate)");
                }
            }
        });
        Fragile(self.0)
    }
}

/// ops: ["unite",a,b] | ["find",a] | ["abandoned_find",a]
pub fn run_fragile_history(ctx: &mut Ctx, universe: usize, ops: &[(u8, usize, usize)]) -> u64 {
    let input = || json!({"type": "Partition<Fragile> (abandoned operations)", "universe": universe, "fragile_ops": ops.iter().map(|(k, a, b)| json!([(["unite", "find", "abandoned_find"][*k as usize]), a, b])).collect::<Vec<_>>()});
    let mut p: Partition<Fragile> = Partition::new();
    let mut model = QuickFind::new(universe);
    let mut seen = vec![false; universe];
    let mut judged = 0u64;
    let mut abandoned = 0u64;
    for (step, &(kind, a, b)) in ops.iter().enumerate() {
        match kind {
            0 => {
                if let Err(pn) = observe(|| p.unite(&Fragile(a as u16), &Fragile(b as u16))) {
                    ctx.violation(&format!("panic@{}", pn.short_loc()), "Partition<Fragile>", input(), json!({"step": step, "panic": pn.to_json()}), "no panic");
                    return judged;
                }
                model.union(a, b);
                seen[a] = true;
                seen[b] = true;
            }
            1 => {
                match observe(|| p.find(&Fragile(a as u16))) {
                    Ok(r) => {
                        judged += 1;
                        seen[a] = true;
                        if (r.0 as usize) >= universe || !model.same(a, r.0 as usize) {
                            ctx.violation("representative-not-in-class", "Partition<Fragile>", input(), json!({"step": step, "element": a, "representative": r.0}), "a representative is a member of its class");
                            return judged;
                        }
                    }
                    Err(pn) => {
                        ctx.violation(&format!("panic@{}", pn.short_loc()), "Partition<Fragile>", input(), json!({"step": step, "panic": pn.to_json()}), "no panic");
                        return judged;
                    }
                }
            }
            _ => {
                if seen[a] {
                    continue;
                }
                FUSE.with(|f| f.set(1));
                let r = observe(|| p.find(&Fragile(a as u16)));
                let left = FUSE.with(|f| f.replace(0));
                if r.is_err() && left == 0 {
                    abandoned += 1;
                } else if r.is_ok() {
                    seen[a] = true;
                }
            }
        }
    }
    // final full query (fuse disarmed)
    let reps: Vec<Option<u16>> = (0..universe).map(|x| observe(|| p.find(&Fragile(x as u16))).ok().map(|r| r.0)).collect();
    for x in 0..universe {
        for y in 0..universe {
            judged += 1;
            let same_lib = reps[x].is_some() && reps[x] == reps[y];
            if reps[x].is_none() || same_lib != model.same(x, y) {
                ctx.violation(
                    "same-representative-iff-connected",
                    "Partition<Fragile>",
                    input(),
                    json!({"x": x, "y": y, "rep_x": reps[x], "rep_y": reps[y], "connected_in_model": model.same(x, y), "abandoned_calls": abandoned}),
                    "two elements have the same representative exactly when connected by the unions applied (a find abandoned because the element's Clone panicked applies none)",
                );
                return judged;
            }
        }
    }
    if abandoned > 0 {
        ctx.count("histories_with_an_abandoned_find");
        ctx.add("abandoned_find_calls", abandoned);
    }
    judged
}

fn fragile_histories(cfg: &Cfg) -> Ctx {
    let seed = cfg.seed;
    par_range(cfg, cfg.tier.pick(150_000, 3_000_000), |ctx, k| {
        let mut rng = Rng::stream(seed, 0x20_F000_0000 + k as u64);
        let universe = 6 + rng.below(6);
        let len = 6 + rng.below(14);
        let ops: Vec<(u8, usize, usize)> = (0..len)
            .map(|_| {
                let a = rng.below(universe);
                let b = rng.below(universe);
                match rng.below(8) {
                    0 | 1 | 2 => (2u8, a, 0),
                    3 | 4 | 5 | 6 => (0u8, a, b),
                    _ => (1u8, a, 0),
                }
            })
            .collect();
        let j = run_fragile_history(ctx, universe, &ops);
        ctx.evals(j);
        ctx.nontrivial(digest(&("fragile", &ops)));
    })
}

const INSTANCES: usize = 3;

/// Expected output of `classes(list)`: classes in first-occurrence order, members in list order.
fn model_classes(m: &QuickFind, l: &[usize]) -> Vec<Vec<usize>> {
    let mut out: Vec<Vec<usize>> = vec![];
    let mut label_pos: Vec<(usize, usize)> = vec![];
    for &e in l {
        let lab = m.label[e];
        if let Some(&(_, p)) = label_pos.iter().find(|(x, _)| *x == lab) {
            out[p].push(e);
        } else {
            label_pos.push((lab, out.len()));
            out.push(vec![e]);
        }
    }
    out
}

/// Runs a history; returns (operations judged, interesting: a union joined two multi-element
/// classes and a clone was operated on after cloning).
pub fn run_history<U: Uf>(ctx: &mut Ctx, universe: usize, ops: &[Op]) -> (u64, bool) {
    let api = U::kind();
    let hist = || json!({"type": U::kind(), "universe": universe, "ops": ops.iter().map(|o| o.to_json()).collect::<Vec<_>>()});
    let mut lib: Vec<U> = (0..INSTANCES).map(|_| U::new_()).collect();
    let mut model: Vec<QuickFind> = (0..INSTANCES).map(|_| QuickFind::new(universe)).collect();
    // last representative seen per (instance, element); cleared for a class on union
    let mut last_rep: Vec<Vec<Option<usize>>> = vec![vec![None; universe]; INSTANCES];
    let mut judged = 0u64;
    let mut big_union = false;
    let mut cloned: Vec<bool> = vec![false; INSTANCES];
    let mut op_after_clone = false;

    for (step, op) in ops.iter().enumerate() {
        let r = observe(|| -> Vec<(String, Value)> {
            let mut bad: Vec<(String, Value)> = vec![];
            match op {
                Op::Unite(i, a, b) => {
                    lib[*i].unite_(*a, *b);
                }
                Op::Find(i, a) => {
                    let r = lib[*i].find_(*a);
                    if r == usize::MAX || r >= universe || !model[*i].same(r, *a) {
                        bad.push(("representative-not-in-class".into(), json!({"step": step, "find": a, "returned": r})));
                    }
                }
                Op::QueryAll(i) => {
                    let reps: Vec<usize> = (0..universe).map(|a| lib[*i].find_(a)).collect();
                    for a in 0..universe {
                        if reps[a] == usize::MAX || reps[a] >= universe || !model[*i].same(reps[a], a) {
                            bad.push(("representative-not-in-class".into(), json!({"step": step, "find": a, "returned": reps[a]})));
                        }
                        for b in (a + 1)..universe {
                            if (reps[a] == reps[b]) != model[*i].same(a, b) {
                                bad.push(("same-representative-iff-connected".into(), json!({"step": step, "a": a, "b": b, "rep_a": reps[a], "rep_b": reps[b], "model_connected": model[*i].same(a, b)})));
                            }
                        }
                    }
                }
                Op::QueryClone(i) => {
                    let c = lib[*i].clone();
                    let reps: Vec<usize> = (0..universe).map(|a| c.find_(a)).collect();
                    for a in 0..universe {
                        for b in (a + 1)..universe {
                            if (reps[a] == reps[b]) != model[*i].same(a, b) {
                                bad.push(("clone-disagrees-with-source".into(), json!({"step": step, "a": a, "b": b, "model_connected": model[*i].same(a, b)})));
                            }
                        }
                    }
                }
                Op::Classes(i, l) => {
                    let got = lib[*i].classes_(l);
                    let want = model_classes(&model[*i], l);
                    if got != want {
                        bad.push(("classes-listing".into(), json!({"step": step, "list": l, "got": got, "expected": want})));
                    }
                }
                Op::CloneTo(s, d) => {
                    let c = lib[*s].clone();
                    lib[*d] = c;
                }
                Op::CloneFrom(s, d) => {
                    if s != d {
                        let mut target = std::mem::replace(&mut lib[*d], U::new_());
                        target.clone_from_(&lib[*s]);
                        lib[*d] = target;
                    }
                }
            }
            bad
        });
        judged += 1;
        match r {
            Ok(bad) => {
                // one witness per clause and history; a history that has gone wrong is not judged further
                // (every later answer would repeat the same root cause)
                let mut seen = std::collections::BTreeSet::new();
                let any = !bad.is_empty();
                for (clause, obs) in bad {
                    if seen.insert(clause.clone()) {
                        ctx.violation(&clause, api, hist(), obs, "partition semantics of the unions applied to that instance");
                    }
                }
                if any {
                    return (judged, false);
                }
            }
            Err(p) => {
                ctx.violation(&format!("panic@{}", p.short_loc()), api, hist(), p.to_json(), "no panic");
                return (judged, false);
            }
        }
        // model update + representative stability (judged on the instance itself only)
        match op {
            Op::Unite(i, a, b) => {
                if cloned[*i] {
                    op_after_clone = true;
                }
                if !model[*i].same(*a, *b) {
                    let (ca, cb) = (model[*i].class_of(*a), model[*i].class_of(*b));
                    if ca.len() > 1 && cb.len() > 1 {
                        big_union = true;
                    }
                    for x in ca.into_iter().chain(cb.into_iter()) {
                        last_rep[*i][x] = None;
                    }
                    model[*i].union(*a, *b);
                }
            }
            Op::Find(i, _) | Op::QueryAll(i) => {
                // re-read representatives and compare with the last ones seen
                let which: Vec<usize> = match op {
                    Op::Find(_, a) => vec![*a],
                    _ => (0..universe).collect(),
                };
                for a in which {
                    let r = observe(|| lib[*i].find_(a));
                    if let Ok(r) = r {
                        if r < universe {
                            for x in model[*i].class_of(a) {
                                if let Some(prev) = last_rep[*i][x] {
                                    if prev != r {
                                        ctx.violation(
                                            "representative-changed-without-union",
                                            api,
                                            hist(),
                                            json!({"step": step, "element": x, "previous": prev, "now": r}),
                                            "a representative stays the same until a union involving its class",
                                        );
                                    }
                                }
                            }
                            for x in model[*i].class_of(a) {
                                last_rep[*i][x] = Some(r);
                            }
                        }
                    }
                }
            }
            Op::CloneTo(s, d) | Op::CloneFrom(s, d) => {
                model[*d] = model[*s].clone();
                last_rep[*d] = vec![None; universe]; // a clone may pick its own representatives
                cloned[*d] = true;
                cloned[*s] = true;
            }
            _ => {}
        }
    }
    (judged, big_union && op_after_clone)
}

/// Short mixed history for the sanitizer lanes (all three observation modes in one history).
pub fn random_history_for_lanes(rng: &mut Rng, universe: usize, len: usize) -> Vec<Op> {
    let mut ops = random_history(rng, universe, len / 2);
    ops.extend(random_history(rng, universe, len / 2));
    ops
}

/// Adversarial history: binomial trees built by repeatedly uniting classes of equal rank (deepest
/// possible forest for union by rank), then finds on the deepest leaves through clones and directly.
fn binomial_history(rng: &mut Rng, universe: usize) -> Vec<Op> {
    let mut ops = vec![];
    let i = rng.below(INSTANCES);
    let mut perm: Vec<usize> = (0..universe).collect();
    rng.shuffle(&mut perm);
    let mut step = 1;
    while step < universe {
        let mut k = 0;
        while k + step < universe {
            // pick arbitrary members of the two blocks, in either order
            let a = perm[k + rng.below(step)];
            let b = perm[k + step + rng.below(step.min(universe - k - step))];
            ops.push(if rng.chance(1, 2) { Op::Unite(i, a, b) } else { Op::Unite(i, b, a) });
            k += 2 * step;
        }
        if rng.chance(1, 3) {
            ops.push(Op::QueryClone(i));
        }
        step *= 2;
    }
    ops.push(Op::CloneTo(i, (i + 1) % INSTANCES));
    for _ in 0..6 {
        ops.push(Op::Find(i, perm[rng.below(universe)]));
    }
    ops.push(Op::QueryAll(i));
    ops.push(Op::QueryAll((i + 1) % INSTANCES));
    ops.push(Op::Classes(i, random_list(rng, universe)));
    ops
}

fn random_history(rng: &mut Rng, universe: usize, len: usize) -> Vec<Op> {
    let mut ops = vec![];
    if rng.chance(1, 8) {
        return binomial_history(rng, universe);
    }
    let mode = rng.below(3);
    let mut k = 0;
    while k < len {
        let i = rng.below(INSTANCES);
        let a = rng.below(universe);
        let b = rng.below(universe);
        match mode {
            // (i) full queries after every mutation
            0 => {
                match rng.below(10) {
                    0 => ops.push(if rng.chance(1, 2) { Op::CloneTo(i, rng.below(INSTANCES)) } else { Op::CloneFrom(i, rng.below(INSTANCES)) }),
                    1 => {
                        let l = random_list(rng, universe);
                        ops.push(Op::Classes(i, l));
                    }
                    _ => ops.push(Op::Unite(i, a, b)),
                }
                ops.push(Op::QueryAll(rng.below(INSTANCES)));
                k += 2;
            }
            // (ii) queries through fresh clones only: the forests are never flattened by the monitor
            1 => {
                match rng.below(12) {
                    0 => ops.push(if rng.chance(1, 2) { Op::CloneTo(i, rng.below(INSTANCES)) } else { Op::CloneFrom(i, rng.below(INSTANCES)) }),
                    1 => ops.push(Op::QueryClone(i)),
                    2 => ops.push(Op::Find(i, a)),
                    _ => ops.push(Op::Unite(i, a, b)),
                }
                k += 1;
            }
            // (iii) long unite-only stretches, then bursts of queries
            _ => {
                let stretch = 5 + rng.below(40);
                for _ in 0..stretch {
                    let (a, b) = (rng.below(universe), rng.below(universe));
                    ops.push(Op::Unite(i, a, b));
                }
                if rng.chance(1, 3) {
                    ops.push(if rng.chance(1, 2) { Op::CloneTo(i, rng.below(INSTANCES)) } else { Op::CloneFrom(i, rng.below(INSTANCES)) });
                }
                for _ in 0..(1 + rng.below(6)) {
                    ops.push(Op::Find(i, rng.below(universe)));
                }
                ops.push(Op::Classes(i, random_list(rng, universe)));
                ops.push(Op::QueryAll(i));
                k += stretch + 4;
            }
        }
    }
    ops
}

fn random_list(rng: &mut Rng, universe: usize) -> Vec<usize> {
    // one list in three repeats elements (sampled with replacement, possibly elements the instance has never
    // been asked about): every occurrence has to be listed, in its class, in query order
    if rng.chance(1, 3) {
        let len = 1 + rng.below(2 * universe);
        return (0..len).map(|_| rng.below(universe)).collect();
    }
    let mut l: Vec<usize> = (0..universe).collect();
    rng.shuffle(&mut l);
    l.truncate(1 + rng.below(universe));
    l
}

/// All histories of a given length over a small universe (exhaustive part).
fn op_alphabet(universe: usize) -> Vec<Op> {
    let mut ops = vec![];
    for i in 0..2 {
        for a in 0..universe {
            for b in (a + 1)..universe {
                ops.push(Op::Unite(i, a, b));
            }
        }
        ops.push(Op::QueryAll(i));
        ops.push(Op::QueryClone(i));
        ops.push(Op::Classes(i, (0..universe).rev().collect()));
        ops.push(Op::Classes(i, vec![universe - 1, universe - 1, 0, universe - 1, 1]));
    }
    ops.push(Op::CloneTo(0, 1));
    ops.push(Op::CloneTo(1, 0));
    ops.push(Op::CloneFrom(0, 1));
    ops.push(Op::CloneFrom(1, 0));
    ops
}

pub fn run_typed<U: Uf>(cfg: &Cfg, report: &mut Report, exhaustive_len: usize, random_n: usize) {
    let universe = 4;
    let alpha = op_alphabet(universe);
    let na = alpha.len();
    let total = na.pow(exhaustive_len as u32);
    let ctx = par_range(cfg, total, |ctx, k| {
        let mut ops = Vec::with_capacity(exhaustive_len + 2);
        let mut x = k;
        for _ in 0..exhaustive_len {
            ops.push(alpha[x % na].clone());
            x /= na;
        }
        ops.push(Op::QueryAll(0));
        ops.push(Op::QueryAll(1));
        let (j, interesting) = run_history::<U>(ctx, universe, &ops);
        ctx.evals(j);
        ctx.count("exhaustive_histories");
        if interesting {
            ctx.nontrivial(digest(&(U::kind(), "ex", k)));
        }
    });
    report.absorb(ctx);

    let seed = cfg.seed;
    let ctx = par_range(cfg, random_n, |ctx, k| {
        let mut rng = Rng::stream(seed, k as u64 ^ digest(U::kind()));
        let universe = [8, 16, 64][k % 3];
        let ops = random_history(&mut rng, universe, 200);
        let (j, interesting) = run_history::<U>(ctx, universe, &ops);
        ctx.evals(j);
        ctx.count("random_histories");
        if interesting {
            ctx.nontrivial(digest(&(U::kind(), "rnd", seed, k)));
            ctx.count("random_histories_nontrivial");
        }
        if k == 0 {
            ctx.sample(|| json!({"type": U::kind(), "universe": universe, "first_ops": ops.iter().take(12).map(|o| o.to_json()).collect::<Vec<_>>(), "length": ops.len()}));
        }
    });
    report.absorb(ctx);
}

pub fn run(cfg: &Cfg) -> Report {
    let mut report = Report::new(cfg);
    let ex = cfg.tier.pick(5, 6);
    let rn = cfg.tier.pick(12_000, 200_000);
    run_typed::<UfInt>(cfg, &mut report, ex, rn);
    run_typed::<UfUsize>(cfg, &mut report, ex, rn);
    run_typed::<UfString>(cfg, &mut report, ex - 1, rn / 2);
    run_typed::<UfPair>(cfg, &mut report, ex - 1, rn / 2);
    run_typed::<UfCoarse>(cfg, &mut report, ex - 1, rn / 2);
    report.absorb(fragile_histories(cfg));
    report.require_counter("histories_with_an_abandoned_find", 1000);

    report.rule = "histories of unite/find/classes/clone over 3 live instances (originals and clones interleaved) for IntPartition and Partition<usize|String|(u8,u8)>: all histories of the exhaustive length over a 16-letter operation alphabet on a 4-element universe, plus histories on Partition<Fragile> in which a find of a never-seen element is abandoned (the element's Clone panics once, the panic is caught, the instance is used on), plus random histories of ~200 operations over 8/16/64 elements in three observation modes (full queries after each step; queries only through fresh clones; long unite-only stretches then query bursts). Non-trivial = at least one union joining two multi-element classes and at least one operation on an instance after it took part in a clone; distinct = distinct history digests".into();
    report.explanation = "every answer compared with a label-array partition per instance (quick-find); representative stability judged on the instance itself; clone independence judged in both directions".into();
    report.note("exhaustive_subuniverses", json!([format!("all operation histories of length {} over the 16-operation alphabet on a 4-element universe, for each of the four partition types (length 4 for String / pair)", ex)]));
    report.assume("lists passed to classes() are duplicate-free; element types with re-entrant Hash/Eq are outside the property");
    report.require_counter("exhaustive_histories", 1000);
    report.require_counter("random_histories_nontrivial", (rn / 4) as u64);
    report.require_hook("partition.compress", 100);
    report.require_hook("partition.link", 1000);
    report
}

pub fn replay(ctx: &mut Ctx, input: &Value) -> bool {
    let ty = input.get("type").and_then(|x| x.as_str()).unwrap_or("");
    if let Some(fo) = input.get("fragile_ops").and_then(|x| x.as_array()) {
        let universe = input.get("universe").and_then(|x| x.as_u64()).unwrap_or(0) as usize;
        let ops: Vec<(u8, usize, usize)> = fo
            .iter()
            .filter_map(|o| {
                let a = o.as_array()?;
                let k = match a.get(0)?.as_str()? { "unite" => 0u8, "find" => 1, _ => 2 };
                Some((k, a.get(1)?.as_u64()? as usize, a.get(2)?.as_u64()? as usize))
            })
            .collect();
        run_fragile_history(ctx, universe, &ops);
        return true;
    }
    let universe = input.get("universe").and_then(|x| x.as_u64()).unwrap_or(0) as usize;
    let ops: Option<Vec<Op>> = input.get("ops").and_then(|x| x.as_array()).map(|a| a.iter().filter_map(Op::from_json).collect());
    let ops = match ops {
        Some(o) => o,
        None => return false,
    };
    match ty {
        "IntPartition" => run_history::<UfInt>(ctx, universe, &ops),
        "Partition<usize>" => run_history::<UfUsize>(ctx, universe, &ops),
        "Partition<String>" => run_history::<UfString>(ctx, universe, &ops),
        "Partition<(u8,u8)>" => run_history::<UfPair>(ctx, universe, &ops),
        "Partition<Coarse (hash coarser than Eq)>" => run_history::<UfCoarse>(ctx, universe, &ops),
        _ => return false,
    };
    true
}
