//! Finite presentations with independently known orders (None = infinite), shared by C11-C13.

use crate::oracle::groups::{Pres, Word};

pub struct Named {
    pub name: &'static str,
    pub pres: Pres,
    pub order: Option<usize>,
}

fn p(name: &'static str, n: usize, rels: &[&[i64]], order: Option<usize>) -> Named {
    Named { name, pres: Pres { ngens: n, rels: rels.iter().map(|w| w.to_vec()).collect() }, order }
}

fn pw(w: &[i64], k: usize) -> Word {
    let mut r = vec![];
    for _ in 0..k {
        r.extend_from_slice(w);
    }
    r
}

fn coxeter(name: &'static str, m: &[&[usize]], order: usize) -> Named {
    // m[i][j] for i<j given as upper-triangular rows
    let n = m.len() + 1;
    let mut rels: Vec<Word> = (1..=n as i64).map(|g| vec![g, g]).collect();
    for i in 0..n {
        for j in (i + 1)..n {
            let mij = m[i][j - i - 1];
            rels.push(pw(&[i as i64 + 1, j as i64 + 1], mij));
        }
    }
    Named { name, pres: Pres { ngens: n, rels }, order: Some(order) }
}

pub fn corpus() -> Vec<Named> {
    let mut v = vec![
        p("trivial <a|a>", 1, &[&[1]], Some(1)),
        p("Z2", 1, &[&[1, 1]], Some(2)),
        p("Z6", 1, &[&[1, 1, 1, 1, 1, 1]], Some(6)),
        p("Z2xZ2", 2, &[&[1, 1], &[2, 2], &[1, 2, 1, 2]], Some(4)),
        p("Z4xZ2", 2, &[&[1, 1, 1, 1], &[2, 2], &[1, 2, -1, -2]], Some(8)),
        p("Z3xZ3", 2, &[&[1, 1, 1], &[2, 2, 2], &[1, 2, -1, -2]], Some(9)),
        p("Z6xZ2 (two gens)", 2, &[&[1, 1, 1, 1, 1, 1], &[2, 2], &[1, 2, -1, -2]], Some(12)),
        p("S3 = <a,b|a2,b2,(ab)3>", 2, &[&[1, 1], &[2, 2], &[1, 2, 1, 2, 1, 2]], Some(6)),
        p("S3 = <s,t|s3,t2,(st)2>", 2, &[&[1, 1, 1], &[2, 2], &[1, 2, 1, 2]], Some(6)),
        p("D4", 2, &[&[1, 1], &[2, 2], &[1, 2, 1, 2, 1, 2, 1, 2]], Some(8)),
        p("D5", 2, &[&[1, 1], &[2, 2], &[1, 2, 1, 2, 1, 2, 1, 2, 1, 2]], Some(10)),
        p("D6", 2, &[&[1, 1], &[2, 2], &[1, 2, 1, 2, 1, 2, 1, 2, 1, 2, 1, 2]], Some(12)),
        p("Q8", 2, &[&[1, 1, -2, -2], &[1, 2, 1, -2]], Some(8)),
        p("A4 = (2,3,3)", 2, &[&[1, 1], &[2, 2, 2], &[1, 2, 1, 2, 1, 2]], Some(12)),
        p("S4 = (2,3,4)", 2, &[&[1, 1], &[2, 2, 2], &[1, 2, 1, 2, 1, 2, 1, 2]], Some(24)),
        p("A5 = (2,3,5)", 2, &[&[1, 1], &[2, 2, 2], &[1, 2, 1, 2, 1, 2, 1, 2, 1, 2]], Some(60)),
        // the same polyhedral groups written with mixed-sign relators (a relator crosses a row through two
        // inverse entries): (a b^-1)^q instead of (ab)^q, inverted powers
        p("A4 = <a,b|a3,(ab^-1)3,b2>", 2, &[&[1, 1, 1], &[1, -2, 1, -2, 1, -2], &[2, 2]], Some(12)),
        p("S4 = <a,b|a4,(ab^-1)3,b2>", 2, &[&[1, 1, 1, 1], &[1, -2, 1, -2, 1, -2], &[2, 2]], Some(24)),
        p("A5 = <a,b|a5,(ab^-1)3,b2>", 2, &[&[1, 1, 1, 1, 1], &[1, -2, 1, -2, 1, -2], &[2, 2]], Some(60)),
        p("A5 = <a,b|a^-5,(a^-1b)3,b^-2>", 2, &[&[-1, -1, -1, -1, -1], &[-1, 2, -1, 2, -1, 2], &[-2, -2]], Some(60)),
        p("A5 = <a,b|a2,b^-3,(ab^-1)5>", 2, &[&[1, 1], &[-2, -2, -2], &[1, -2, 1, -2, 1, -2, 1, -2, 1, -2]], Some(60)),
        p("S4 = <a,b|a2,b^-3,(ab^-1)4>", 2, &[&[1, 1], &[-2, -2, -2], &[1, -2, 1, -2, 1, -2, 1, -2]], Some(24)),
        p("binary tetrahedral <2,3,3>", 2, &[&[1, 1, -2, -2, -2], &[1, 1, -1, -2, -1, -2, -1, -2]], None),
        p("SL(2,3) = <a,b|a3=b3=(ab)2>", 2, &[&[1, 1, 1, -2, -2, -2], &[1, 1, 1, -2, -1, -2, -1]], Some(24)),
        p("trivial: aba^-1=b2, bab^-1=a2", 2, &[&[1, 2, -1, -2, -2], &[2, 1, -2, -1, -1]], Some(1)),
        p("trivial with redundant generators", 3, &[&[1, 2], &[2, 3], &[3, 1], &[1, 1, 1]], Some(1)),
        p("Z3 with redundant generators", 3, &[&[1, -2], &[2, -3], &[1, 2, 3]], Some(3)),
        p("S3 with a redundant third generator c = ab", 3, &[&[1, 1], &[2, 2], &[1, 2, 1, 2, 1, 2], &[1, 2, -3]], Some(6)),
        p("Z2xZ2xZ2", 3, &[&[1, 1], &[2, 2], &[3, 3], &[1, 2, 1, 2], &[1, 3, 1, 3], &[2, 3, 2, 3]], Some(8)),
        p("Heisenberg mod 3", 2, &[&[1, 1, 1], &[2, 2, 2], &[1, 2, -1, -2, 1, 2, -1, -2, 1, 2, -1, -2], &[1, 1, 2, -1, -2, -1, 2, 1, -2, -1]], None),
        // infinite groups
        p("free F1", 1, &[], None),
        p("free F2", 2, &[], None),
        p("free F3", 3, &[], None),
        p("Z^2", 2, &[&[1, 2, -1, -2]], None),
        p("Z^3", 3, &[&[1, 2, -1, -2], &[1, 3, -1, -3], &[2, 3, -2, -3]], None),
        p("Klein bottle", 2, &[&[1, 2, -1, 2]], None),
        p("surface group genus 2", 4, &[&[1, 2, -1, -2, 3, 4, -3, -4]], None),
        p("non-orientable surface N3", 3, &[&[1, 1, 2, 2, 3, 3]], None),
        p("(2,3,7) triangle group", 2, &[&[1, 1], &[2, 2, 2], &[1, 2, 1, 2, 1, 2, 1, 2, 1, 2, 1, 2, 1, 2]], None),
        p("(2,4,5) triangle group", 2, &[&[1, 1], &[2, 2, 2, 2], &[1, 2, 1, 2, 1, 2, 1, 2, 1, 2]], None),
        p("(3,3,4) triangle group", 2, &[&[1, 1, 1], &[2, 2, 2], &[1, 2, 1, 2, 1, 2, 1, 2]], None),
        p("infinite dihedral", 2, &[&[1, 1], &[2, 2]], None),
        p("Z x Z2", 2, &[&[2, 2], &[1, 2, -1, -2]], None),
        p("modular group PSL(2,Z)", 2, &[&[1, 1], &[2, 2, 2]], None),
        p("Baumslag-Solitar BS(1,2)", 2, &[&[1, 2, -1, -2, -2]], None),
        p("wallpaper p4", 2, &[&[1, 1, 1, 1], &[2, 2, 2, 2], &[1, 2, 1, 2]], None),
        p("wallpaper p6 = (2,3,6)", 2, &[&[1, 1], &[2, 2, 2], &[1, 2, 1, 2, 1, 2, 1, 2, 1, 2, 1, 2]], None),
    ];
    v.push(coxeter("Coxeter A3 = S4", &[&[3, 2], &[3]], 24));
    v.push(coxeter("Coxeter B3", &[&[4, 2], &[3]], 48));
    v.push(coxeter("Coxeter H3", &[&[5, 2], &[3]], 120));
    v.push(coxeter("Coxeter A4 = S5", &[&[3, 2, 2], &[3, 2], &[3]], 120));
    v.push(coxeter("Coxeter B4", &[&[4, 2, 2], &[3, 2], &[3]], 384));
    v.push(coxeter("Coxeter F4", &[&[3, 2, 2], &[4, 2], &[3]], 1152));
    v.push(coxeter("Coxeter I2(7)", &[&[7]], 14));
    v
}

/// Random presentations with 2-3 generators and 2-4 relators of length 2-7: mostly small groups
/// with many coincidences (hostile to coset enumeration), some infinite.
pub fn random_presentations(seed: u64, count: usize) -> Vec<Pres> {
    let mut rng = crate::rng::Rng::stream(seed, 0x9c0);
    (0..count)
        .map(|_| {
            let n = 2 + rng.below(2);
            let nr = 2 + rng.below(3);
            let rels: Vec<Word> = (0..nr)
                .map(|_| {
                    let len = 2 + rng.below(6);
                    let w: Word = (0..len).map(|_| { let g = rng.range(1, n as i64); if rng.chance(1, 2) { g } else { -g } }).collect();
                    crate::oracle::groups::reduce(&w)
                })
                .collect();
            Pres { ngens: n, rels }
        })
        .collect()
}

/// Presentations of tiny groups that make coset enumeration build a large table and then collapse it
/// almost completely at the very end, plus variants with redundant generators (c = word in a, b) and
/// infinite groups with a trivial generator.
pub fn hostile_presentations(seed: u64, count: usize) -> Vec<(String, Pres)> {
    let mut rng = crate::rng::Rng::stream(seed, 0x9c1);
    let pw = |w: &[i64], k: usize| -> Word { let mut r = vec![]; for _ in 0..k { r.extend_from_slice(w); } r };
    let mut out: Vec<(String, Pres)> = vec![];
    for k in 3..=17usize {
        out.push((format!("<a,b | a^{}, b^2, (ab)^2, (ab^-1)^3>", k), Pres { ngens: 2, rels: vec![pw(&[1], k), pw(&[2], 2), pw(&[1, 2], 2), pw(&[1, -2], 3)] }));
        out.push((format!("<a,b | a^{}, b^3, (ab)^2, (a^2 b)^2>", k), Pres { ngens: 2, rels: vec![pw(&[1], k), pw(&[2], 3), pw(&[1, 2], 2), pw(&[1, 1, 2], 2)] }));
    }
    // Z and Z^2 with a trivial or redundant generator
    out.push(("<a,b | b> = Z".into(), Pres { ngens: 2, rels: vec![vec![2]] }));
    out.push(("<a,b,c | b, aca^-1c^-1> = Z^2".into(), Pres { ngens: 3, rels: vec![vec![2], vec![1, 3, -1, -3]] }));
    // triangle-like presentations with one extra random relator (usually a big collapse)
    while out.len() < count / 2 {
        let (l, m, n) = (2 + rng.below(5), 2 + rng.below(5), 2 + rng.below(6));
        let len = 3 + rng.below(6);
        let extra: Word = crate::oracle::groups::reduce(&(0..len).map(|_| { let g = rng.range(1, 2); if rng.chance(1, 2) { g } else { -g } }).collect::<Word>());
        out.push((format!("triangle-like ({},{},{}) + random relator", l, m, n), Pres { ngens: 2, rels: vec![pw(&[1], l), pw(&[2], m), pw(&[1, 2], n), extra] }));
    }
    // corpus groups with a redundant generator c = w(a,b)
    let base = corpus();
    while out.len() < count {
        let g = &base[rng.below(base.len())];
        if g.pres.ngens != 2 {
            continue;
        }
        let len = 1 + rng.below(4);
        let w: Word = crate::oracle::groups::reduce(&(0..len).map(|_| { let x = rng.range(1, 2); if rng.chance(1, 2) { x } else { -x } }).collect::<Word>());
        let mut rels = g.pres.rels.clone();
        let mut r = vec![-3];
        r.extend_from_slice(&w);
        rels.push(r);
        out.push((format!("{} + redundant generator c = {:?}", g.name, w), Pres { ngens: 3, rels }));
    }
    out
}
