//! One monitor per property.

use crate::monitor::{Cfg, Report};
use serde_json::Value;

pub mod c10;
pub mod c14;
pub mod c18;
pub mod c19;
pub mod c20;

pub fn run(cfg: &Cfg) -> Option<Report> {
    match cfg.prop.as_str() {
        "C10" => Some(c10::run(cfg)),
        "C14" => Some(c14::run(cfg)),
        "C18" => Some(c18::run(cfg)),
        "C19" => Some(c19::run(cfg)),
        "C20" => Some(c20::run(cfg)),
        _ => None,
    }
}

/// Re-executes the single case stored in a replay file; prints VIOLATION / KNOWN-FINDING /
/// NOT-REPRODUCED and returns the exit code.
pub fn replay(cfg: &Cfg, v: &Value, path: &str) -> i32 {
    let prop = cfg.prop.as_str();
    let input = v.get("input").cloned().unwrap_or(Value::Null);
    let mut ctx = crate::monitor::Ctx::new();
    let handled = match prop {
        "C10" => c10::replay(&mut ctx, &input),
        "C14" => c14::replay(&mut ctx, &input),
        "C18" => c18::replay(&mut ctx, &input, cfg.lane == "release"),
        "C19" => c19::replay(&mut ctx, &input),
        "C20" => c20::replay(&mut ctx, &input),
        _ => false,
    };
    if !handled {
        println!("INCONCLUSIVE property={} reason=replay of this case kind is not supported; the file documents the witness", prop);
        return 2;
    }
    if ctx.violation_count > 0 {
        let known = crate::monitor::KnownFindings::load(&cfg.verif_dir);
        let mut new = 0;
        for viol in &ctx.violations {
            let sig = viol.signature(prop);
            if let Some(t) = known.lookup(prop, &sig) {
                println!("KNOWN-FINDING: property={} {} (sig={})", prop, t, sig);
            } else {
                new += 1;
                eprintln!("  clause: {} | observed: {}", viol.clause, viol.observed);
            }
        }
        if new > 0 {
            println!("VIOLATION property={} replay={}", prop, path);
            return 1;
        }
        0
    } else {
        println!("NOT-REPRODUCED property={} replay={}", prop, path);
        0
    }
}
