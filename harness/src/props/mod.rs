//! One monitor per property.

use crate::monitor::{Cfg, Report};
use serde_json::Value;

pub mod c01;
pub mod c02;
pub mod c03;
pub mod c04;
pub mod c05;
pub mod c06;
pub mod c07;
pub mod c08;
pub mod c09;
pub mod c10;
pub mod c11;
pub mod c12;
pub mod c13;
pub mod groupcorpus;
pub mod c14;
pub mod c15;
pub mod c16;
pub mod c17;
pub mod three_d;
pub mod c18;
pub mod c19;
pub mod c20;

pub fn run(cfg: &Cfg) -> Option<Report> {
    match cfg.prop.as_str() {
        "C01" => Some(c01::run(cfg)),
        "C02" => Some(c02::run(cfg)),
        "C03" => Some(c03::run(cfg)),
        "C04" => Some(c04::run(cfg)),
        "C05" => Some(c05::run(cfg)),
        "C06" => Some(c06::run(cfg)),
        "C07" => Some(c07::run(cfg)),
        "C08" => Some(c08::run(cfg)),
        "C09" => Some(c09::run(cfg)),
        "C10" => Some(c10::run(cfg)),
        "C11" => Some(c11::run(cfg)),
        "C12" => Some(c12::run(cfg)),
        "C13" => Some(c13::run(cfg)),
        "C14" => Some(c14::run(cfg)),
        "C15" => Some(c15::run(cfg)),
        "C16" => Some(c16::run(cfg)),
        "C17" => Some(c17::run(cfg)),
        "C18" => Some(c18::run(cfg)),
        "C19" => Some(c19::run(cfg)),
        "C20" => Some(c20::run(cfg)),
        _ => None,
    }
}

/// Judges one recorded input with the monitor of `prop`, accumulating into `ctx`.
/// Returns false when the monitor cannot rebuild a case from this input.
pub fn replay_into(prop: &str, ctx: &mut crate::monitor::Ctx, input: &Value, release: bool) -> bool {
    match prop {
        "C01" => c01::replay(ctx, input),
        "C02" => c02::replay(ctx, input),
        "C03" => c03::replay(ctx, input),
        "C04" => c04::replay(ctx, input),
        "C05" => c05::replay(ctx, input),
        "C06" => c06::replay(ctx, input),
        "C07" => c07::replay(ctx, input),
        "C08" => c08::replay(ctx, input),
        "C09" => c09::replay(ctx, input),
        "C10" => c10::replay(ctx, input),
        "C11" => c11::replay(ctx, input),
        "C12" => c12::replay(ctx, input),
        "C13" => c13::replay(ctx, input),
        "C14" => c14::replay(ctx, input),
        "C15" => c15::replay(ctx, input),
        "C16" => c16::replay(ctx, input),
        "C17" => c17::replay(ctx, input),
        "C18" => c18::replay(ctx, input, release),
        "C19" => c19::replay(ctx, input),
        "C20" => c20::replay(ctx, input),
        _ => false,
    }
}

/// Re-executes the single case stored in a replay file; prints VIOLATION / KNOWN-FINDING /
/// NOT-REPRODUCED and returns the exit code.
pub fn replay(cfg: &Cfg, v: &Value, path: &str) -> i32 {
    let prop = cfg.prop.as_str();
    let input = v.get("input").cloned().unwrap_or(Value::Null);
    let mut ctx = crate::monitor::Ctx::new();
    let handled = replay_into(prop, &mut ctx, &input, cfg.lane == "release");
    if !handled {
        println!("INCONCLUSIVE property={} reason=replay of this case kind is not supported; the file documents the witness", prop);
        return 2;
    }
    if ctx.violation_count > 0 {
        let known = crate::monitor::KnownFindings::load(&cfg.verif_dir);
        let mut new = 0;
        for viol in &ctx.violations {
            let sig = viol.signature(prop);
            if let Some(t) = known.lookup(prop, &sig) {
                println!("KNOWN-FINDING: property={} {} (sig={})", prop, t, sig);
            } else {
                new += 1;
                eprintln!("  clause: {} | observed: {}", viol.clause, viol.observed);
            }
        }
        if new > 0 {
            println!("VIOLATION property={} replay={}", prop, path);
            return 1;
        }
        0
    } else {
        println!("NOT-REPRODUCED property={} replay={}", prop, path);
        0
    }
}
