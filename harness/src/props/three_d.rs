//! Shared machinery for the 3D properties C15-C17.

use crate::bridge::*;
use crate::gen;
use crate::monitor::{observe, Cfg, PanicInfo};
use crate::oracle::dsym::MSym;
use crate::oracle::groups::{self, Pres};
use crate::oracle::orbifold;
use crate::oracle::pi1;
use crate::oracle::snf;
use crate::rng::Rng;
use num_bigint::BigInt;
use num_traits::Zero;
use rust_dsymbols::fundamental_group::fundamental_group;

/// Universe of 3D symbols in the domain of C15-C17: complete, connected, v in {1,2,3,4,6},
/// spherical tiles and vertex figures (decided by the oracle).
pub fn universe(n: usize) -> Vec<MSym> {
    gen::symbols_3d_crystallographic(n)
}

/// Larger domain symbols (5-6 chambers): all branchings over {1,2,3,4,6} for sets with few
/// 2-orbits, random ones otherwise, filtered by local sphericity, then thinned to `max_total`
/// with a seed-dependent stride.
pub fn sampled_larger(seed: u64, sizes: &[usize], per_set: usize, max_total: usize) -> Vec<MSym> {
    let mut all = vec![];
    let mut rng = Rng::stream(seed, 0x3d);
    for &n in sizes {
        for s in gen::connected_sets_exact(3, n) {
            let orbits = gen::adjacent_orbits(&s);
            if orbits.len() <= if per_set >= 3 { 7 } else { 5 } {
                gen::for_all_branchings(&s, &|_, _| vec![1, 2, 3, 4, 6], &mut |x| {
                    if gen::locally_spherical_3d(x) {
                        all.push(x.clone());
                    }
                });
            } else {
                for _ in 0..(per_set * 400) {
                    let mut x = s.clone();
                    for (i, _, members, _) in &orbits {
                        let v = *rng.pick(&[1usize, 1, 1, 2, 2, 3, 4, 6]);
                        for &e in members {
                            x.v[*i][e] = v;
                        }
                    }
                    if gen::locally_spherical_3d(&x) {
                        all.push(x);
                    }
                }
            }
        }
    }
    if all.len() <= max_total {
        return all;
    }
    rng.shuffle(&mut all);
    all.truncate(max_total);
    all
}

/// First homology (abelian invariants of the textbook presentation), as strings "0","0","2",...
pub fn h1(m: &MSym) -> Vec<BigInt> {
    let tb = pi1::textbook_pi1(m);
    snf::abelian_invariants_of_presentation(tb.pres.ngens, &tb.pres.rels)
}

pub fn is_z3(inv: &[BigInt]) -> bool {
    inv.len() == 3 && inv.iter().all(|x| x.is_zero())
}

/// The library's presentation of the fundamental group, as an oracle-side presentation.
pub fn lib_presentation(m: &MSym) -> Result<Pres, PanicInfo> {
    observe(|| {
        let fg = fundamental_group(&to_partial_dsym(m));
        Pres { ngens: fg.nr_generators(), rels: from_freewords(fg.relators.iter()) }
    })
}

/// All adjacent branching numbers are 1.
pub fn unbranched(m: &MSym) -> bool {
    (0..m.dim).all(|i| (1..=m.n).all(|d| m.v[i][d] == 1))
}

/// Every (0,1,2)- and (1,2,3)-component of a branch-free 3D set is a sphere.
pub fn spherical_tiles_and_vertices(m: &MSym) -> Result<(), String> {
    for idcs in [[0usize, 1, 2], [1, 2, 3]] {
        let mut seen = vec![false; m.n + 1];
        for d in 1..=m.n {
            if seen[d] {
                continue;
            }
            for e in m.orbit(&idcs, d) {
                seen[e] = true;
            }
            let sub = m.subsymbol(&idcs, d);
            if !sub.is_loopless() {
                return Err(format!("the {:?}-component of chamber {} has a mirror", idcs, d));
            }
            let k = orbifold::curvature(&sub);
            if k != crate::oracle::frac::Frac::int(4) || !unbranched(&sub) {
                return Err(format!("the {:?}-component of chamber {} is not a sphere (curvature {})", idcs, d, k.to_string()));
            }
        }
    }
    Ok(())
}

/// Low-index profile (classes per index 1..=k) of a presentation, with Tietze elimination first.
pub fn profile(p: &Pres, k: usize, budget: u64) -> Option<Vec<usize>> {
    let q = groups::tietze_eliminate(p, 12, 20_000);
    if q.ngens > 8 {
        return None;
    }
    groups::low_index_profile(&q, k, budget)
}

pub const Z3_PROFILE: [usize; 4] = [1, 7, 13, 35];

pub fn variants(cfg: &Cfg, m: &MSym, rng: &mut Rng, n_perms: usize) -> Vec<(String, MSym)> {
    let _ = cfg;
    let mut out = vec![("identity".to_string(), m.clone())];
    for (k, p) in gen::some_perms1(m.n, n_perms.saturating_sub(2), rng).into_iter().enumerate() {
        if m.n >= 2 || k == 0 {
            out.push((format!("renumbering {:?}", &p[1..]), m.renumbered(&p)));
        }
    }
    out.push(("dual".to_string(), m.dual()));
    out
}
