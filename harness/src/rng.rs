//! xoshiro256** seeded through splitmix64; deterministic for a given seed.

#[derive(Clone)]
pub struct Rng {
    s: [u64; 4],
}

fn splitmix(x: &mut u64) -> u64 {
    *x = x.wrapping_add(0x9E3779B97F4A7C15);
    let mut z = *x;
    z = (z ^ (z >> 30)).wrapping_mul(0xBF58476D1CE4E5B9);
    z = (z ^ (z >> 27)).wrapping_mul(0x94D049BB133111EB);
    z ^ (z >> 31)
}

impl Rng {
    pub fn new(seed: u64) -> Self {
        let mut x = seed ^ 0x5DEECE66D;
        let s = [splitmix(&mut x), splitmix(&mut x), splitmix(&mut x), splitmix(&mut x)];
        Rng { s }
    }

    /// Independent stream for (seed, stream id).
    pub fn stream(seed: u64, id: u64) -> Self {
        Rng::new(seed.wrapping_mul(0x2545F4914F6CDD1D) ^ id.wrapping_mul(0x9E3779B97F4A7C15).rotate_left(17))
    }

    pub fn next_u64(&mut self) -> u64 {
        let result = self.s[1].wrapping_mul(5).rotate_left(7).wrapping_mul(9);
        let t = self.s[1] << 17;
        self.s[2] ^= self.s[0];
        self.s[3] ^= self.s[1];
        self.s[1] ^= self.s[2];
        self.s[0] ^= self.s[3];
        self.s[2] ^= t;
        self.s[3] = self.s[3].rotate_left(45);
        result
    }

    /// Uniform in 0..n (n > 0).
    pub fn below(&mut self, n: usize) -> usize {
        debug_assert!(n > 0);
        (self.next_u64() % n as u64) as usize
    }

    /// Uniform in lo..=hi.
    pub fn range(&mut self, lo: i64, hi: i64) -> i64 {
        debug_assert!(lo <= hi);
        lo + (self.next_u64() % ((hi - lo + 1) as u64)) as i64
    }

    pub fn chance(&mut self, num: u32, den: u32) -> bool {
        (self.next_u64() % den as u64) < num as u64
    }

    pub fn pick<'a, T>(&mut self, xs: &'a [T]) -> &'a T {
        &xs[self.below(xs.len())]
    }

    pub fn shuffle<T>(&mut self, xs: &mut [T]) {
        for i in (1..xs.len()).rev() {
            let j = self.below(i + 1);
            xs.swap(i, j);
        }
    }

    /// Random permutation of 1..=n as a vector p with p[0] = 0, p[d] = image of d.
    pub fn perm1(&mut self, n: usize) -> Vec<usize> {
        let mut p: Vec<usize> = (1..=n).collect();
        self.shuffle(&mut p);
        let mut r = vec![0];
        r.extend(p);
        r
    }
}
