//! Hostile-caller shapes: the same logical call made through the different forms the public API admits.
//!
//! A monitor that always passes `&Vec` / `.iter()` and always drains a returned iterator with `collect()`
//! observes one *shape* of each call. Independent authors (round 4 of the seeded changes) showed that a change
//! can depend on the shape only: an input iterator without an exact size hint, an input iterator that panics
//! half way (the panic is caught and the thread goes on), a returned iterator consumed through `nth` / `skip` /
//! `step_by`, a `clone_from` instead of a `clone`. The helpers here produce those shapes; the oracle stays the
//! one of the property (the answer must not depend on the shape).

use crate::rng::Rng;

/// Number of input shapes offered by [`shaped`].
pub const INPUT_SHAPES: usize = 6;

pub fn input_shape_name(shape: usize) -> &'static str {
    match shape % INPUT_SHAPES {
        0 => "vec-into-iter(exact size)",
        1 => "filter(lower bound 0)",
        2 => "chain-of-halves",
        3 => "opaque(size_hint = (0, None))",
        4 => "flat_map(one element each)",
        _ => "take_while+peekable-free scan",
    }
}

/// An iterator that yields the given items but hides its length completely.
pub struct Opaque<T> {
    items: std::vec::IntoIter<T>,
}

impl<T> Iterator for Opaque<T> {
    type Item = T;
    fn next(&mut self) -> Option<T> {
        self.items.next()
    }
    fn size_hint(&self) -> (usize, Option<usize>) {
        (0, None)
    }
}

/// The items of `v` as an iterator of the requested shape. Every shape yields exactly the same sequence.
pub fn shaped<T: Clone + 'static>(v: &[T], shape: usize) -> Box<dyn Iterator<Item = T>> {
    let v: Vec<T> = v.to_vec();
    match shape % INPUT_SHAPES {
        0 => Box::new(v.into_iter()),
        1 => Box::new(v.into_iter().filter(|_| true)),
        2 => {
            let k = v.len() / 2;
            let b = v[k..].to_vec();
            let a = v[..k].to_vec();
            Box::new(a.into_iter().chain(b.into_iter()))
        }
        3 => Box::new(Opaque { items: v.into_iter() }),
        4 => Box::new(v.into_iter().flat_map(|x| std::iter::once(x))),
        _ => {
            let n = v.len();
            let mut k = 0usize;
            Box::new(v.into_iter().take_while(move |_| {
                k += 1;
                k <= n
            }))
        }
    }
}

/// The references of `v` as an iterator of the requested shape (for `IntoIterator<Item = &T>` parameters).
pub fn shaped_refs<'a, T>(v: &'a [T], shape: usize) -> Box<dyn Iterator<Item = &'a T> + 'a> {
    match shape % INPUT_SHAPES {
        0 => Box::new(v.iter()),
        1 => Box::new(v.iter().filter(|_| true)),
        2 => {
            let k = v.len() / 2;
            Box::new(v[..k].iter().chain(v[k..].iter()))
        }
        3 => Box::new(Opaque { items: v.iter().collect::<Vec<_>>().into_iter() }),
        4 => Box::new(v.iter().flat_map(|x| std::iter::once(x))),
        _ => {
            let n = v.len();
            let mut k = 0usize;
            Box::new(v.iter().take_while(move |_| {
                k += 1;
                k <= n
            }))
        }
    }
}

/// An iterator that yields the first `after` items of `v` and then panics (the caller catches the panic and
/// carries on using the library on the same thread: no state of the abandoned call may leak into later calls).
pub fn panicking<T: Clone + 'static>(v: &[T], after: usize) -> Box<dyn Iterator<Item = T>> {
    let v: Vec<T> = v.to_vec();
    let mut k = 0usize;
    Box::new(v.into_iter().map(move |x| {
        if k >= after {
            panic!("vharness: input iterator gives up (deliberate)");
        }
        k += 1;
        x
    }))
}

pub fn panicking_refs<'a, T>(v: &'a [T], after: usize) -> Box<dyn Iterator<Item = &'a T> + 'a> {
    let mut k = 0usize;
    Box::new(v.iter().map(move |x| {
        if k >= after {
            panic!("vharness: input iterator gives up (deliberate)");
        }
        k += 1;
        x
    }))
}

/// True if a caught panic is one of the deliberate ones above.
pub fn is_deliberate(msg: &str) -> bool {
    msg.contains("vharness: input iterator gives up")
}

/// Result of consuming an iterator through adaptors: the positions (in the plain `next()` sequence) at which
/// the items were taken, the items, and every size hint seen together with the number of items that were
/// still to come at that moment.
pub struct Consumed<T> {
    pub taken: Vec<(usize, T)>,
    pub hints: Vec<((usize, Option<usize>), usize)>,
    pub mode: &'static str,
    pub extra_after_end: usize,
}

/// Number of consumption modes offered by [`consume`].
pub const CONSUME_MODES: usize = 8;

/// Consume `it` (whose plain sequence has `total` items, known from a reference run) through a mix of
/// `Iterator` methods. Every item taken is reported with the index it must have in the plain sequence.
pub fn consume<I: Iterator>(mut it: I, total: usize, mode: usize, rng: &mut Rng) -> Consumed<I::Item> {
    let mut taken = vec![];
    let mut hints = vec![];
    let mut pos = 0usize; // index of the next item the iterator would yield
    let mut extra = 0usize;
    let name: &'static str;
    macro_rules! hint {
        ($it:expr) => {
            hints.push(($it.size_hint(), total.saturating_sub(pos)));
        };
    }
    match mode % CONSUME_MODES {
        0 => {
            name = "nth(random k) repeatedly";
            loop {
                hint!(it);
                let k = rng.below(4);
                match it.nth(k) {
                    Some(x) => {
                        taken.push((pos + k, x));
                        pos += k + 1;
                    }
                    None => break,
                }
            }
        }
        1 => {
            name = "skip(k) then next()";
            let k = if total == 0 { 0 } else { rng.below(total + 1) };
            hint!(it);
            let mut s = it.skip(k);
            pos = k;
            while let Some(x) = s.next() {
                taken.push((pos, x));
                pos += 1;
            }
            return Consumed { taken, hints, mode: name, extra_after_end: 0 };
        }
        2 => {
            name = "step_by(s)";
            let s = 2 + rng.below(3);
            hint!(it);
            for (j, x) in it.step_by(s).enumerate() {
                taken.push((j * s, x));
            }
            return Consumed { taken, hints, mode: name, extra_after_end: 0 };
        }
        3 => {
            name = "by_ref().take(k) in chunks";
            loop {
                hint!(it);
                let k = 1 + rng.below(3);
                let chunk: Vec<_> = it.by_ref().take(k).collect();
                let got = chunk.len();
                for x in chunk {
                    taken.push((pos, x));
                    pos += 1;
                }
                if got < k {
                    break;
                }
            }
        }
        4 => {
            name = "last()";
            hint!(it);
            if let Some(x) = it.last() {
                taken.push((total.saturating_sub(1), x));
            }
            return Consumed { taken, hints, mode: name, extra_after_end: 0 };
        }
        5 => {
            name = "next() x j then nth(k) then collect()";
            let j = rng.below(3);
            for _ in 0..j {
                hint!(it);
                match it.next() {
                    Some(x) => {
                        taken.push((pos, x));
                        pos += 1;
                    }
                    None => break,
                }
            }
            let k = rng.below(3);
            hint!(it);
            if let Some(x) = it.nth(k) {
                taken.push((pos + k, x));
                pos += k + 1;
                hint!(it);
                for x in it.by_ref() {
                    taken.push((pos, x));
                    pos += 1;
                }
            }
        }
        6 => {
            name = "fold / count via by_ref, then next() after the end";
            hint!(it);
            let all: Vec<_> = it.by_ref().fold(vec![], |mut acc, x| {
                acc.push(x);
                acc
            });
            for x in all {
                taken.push((pos, x));
                pos += 1;
            }
        }
        _ => {
            name = "peekable + skip_while on position";
            let k = if total == 0 { 0 } else { rng.below(total + 1) };
            hint!(it);
            let mut j = 0usize;
            let mut p = it
                .skip_while(move |_| {
                    j += 1;
                    j <= k
                })
                .peekable();
            pos = k;
            while p.peek().is_some() {
                let x = p.next().unwrap();
                taken.push((pos, x));
                pos += 1;
            }
            return Consumed { taken, hints, mode: name, extra_after_end: 0 };
        }
    }
    // after the end: an exhausted generator must stay exhausted (three more polls)
    for _ in 0..3 {
        if it.next().is_some() {
            extra += 1;
        }
    }
    Consumed { taken, hints, mode: name, extra_after_end: extra }
}

/// Judge a [`Consumed`] against the plain sequence (rendered by `key`). Returns a description of the first
/// disagreement, if any.
pub fn judge_consumed<T>(c: &Consumed<T>, plain: &[String], key: impl Fn(&T) -> String) -> Option<String> {
    for (pos, x) in &c.taken {
        let k = key(x);
        match plain.get(*pos) {
            Some(p) if *p == k => {}
            Some(p) => return Some(format!("mode '{}': item taken at position {} is {} but the plain next() sequence has {} there", c.mode, pos, k, p)),
            None => return Some(format!("mode '{}': item {} taken at position {} beyond the {} items of the plain sequence", c.mode, k, pos, plain.len())),
        }
    }
    for ((lo, hi), remaining) in &c.hints {
        if lo > remaining || hi.map_or(false, |h| h < *remaining) {
            return Some(format!("mode '{}': size_hint ({}, {:?}) with {} items still to come", c.mode, lo, hi, remaining));
        }
    }
    if c.extra_after_end > 0 {
        return Some(format!("mode '{}': {} more item(s) after the iterator had returned None", c.mode, c.extra_after_end));
    }
    None
}

#[cfg(test)]
mod tests {
    use super::*;

    #[test]
    fn shapes_yield_the_same_sequence() {
        let v: Vec<usize> = (0..7).collect();
        for s in 0..INPUT_SHAPES {
            assert_eq!(shaped(&v, s).collect::<Vec<_>>(), v);
            assert_eq!(shaped_refs(&v, s).cloned().collect::<Vec<_>>(), v);
        }
        assert_eq!(shaped(&v, 3).size_hint(), (0, None));
        assert_eq!(shaped(&v, 1).size_hint().0, 0);
    }

    #[test]
    fn consumption_of_an_honest_iterator_is_accepted() {
        let plain: Vec<String> = (0..23).map(|i| i.to_string()).collect();
        let mut rng = Rng::new(5);
        for m in 0..CONSUME_MODES * 20 {
            let c = consume(0..23usize, 23, m, &mut rng);
            assert_eq!(judge_consumed(&c, &plain, |x| x.to_string()), None);
        }
    }

    #[test]
    fn a_miscounting_nth_is_rejected() {
        struct Bad(usize);
        impl Iterator for Bad {
            type Item = usize;
            fn next(&mut self) -> Option<usize> {
                self.0 += 1;
                if self.0 <= 10 { Some(self.0 - 1) } else { None }
            }
            fn nth(&mut self, n: usize) -> Option<usize> {
                self.0 += n; // forgets the item itself
                if self.0 < 10 { Some(self.0) } else { None }
            }
        }
        let plain: Vec<String> = (0..10).map(|i| i.to_string()).collect();
        let mut rng = Rng::new(1);
        let mut rejected = 0;
        for m in 0..CONSUME_MODES * 10 {
            let c = consume(Bad(0), 10, m, &mut rng);
            if judge_consumed(&c, &plain, |x| x.to_string()).is_some() {
                rejected += 1;
            }
        }
        assert!(rejected > 0);
    }
}
